------------------------------ MODULE TimeArith ------------------------------
(***************************************************************************)
(* C16: a reference for statime's time arithmetic that shares nothing with *)
(* the implementation's 128-bit binary fixed point: mixed-radix limbs and  *)
(* schoolbook carries / borrows (TLC's integers are 32 bit).               *)
(*                                                                         *)
(* magnitude  m = <<s_hi, s_lo, ns, f_hi, f_lo>>                            *)
(*   value = ((s_hi * 2^24 + s_lo) * 10^9 + ns) * 2^32 + f_hi * 2^16 + f_lo *)
(*   in units of 2^-32 ns;  s_hi, s_lo < 2^24, ns < 10^9, f_hi, f_lo < 2^16 *)
(* time       a magnitude (48 bit seconds: the PTP range)                   *)
(* duration   [neg, m]                                                      *)
(* wire timestamp  <<s_hi, s_lo, ns>>;  correction field of a time: f_hi    *)
(*                 (units of 2^-16 ns)                                      *)
(* time interval (wire, 64 bit scaled ns)  [neg, m] with m[5] = 0           *)
(***************************************************************************)
EXTENDS TimeLimbs, TLC, Json     \* B24, B16, NS, Zero, Add, Less, Sub

\* Time + Duration: exact while the result is a time of the PTP range; outside it the result must not wrap around
\* (statime clamps): "under" / "over"
TimePlus(t, d) ==
  IF ~d.neg THEN (IF Add(t, d.m).carry THEN [st |-> "over"] ELSE [st |-> "ok", t |-> Add(t, d.m).m])
  ELSE IF Less(t, d.m) THEN [st |-> "under"] ELSE [st |-> "ok", t |-> Sub(t, d.m)]
Neg(d) == IF d.m = Zero THEN d ELSE [neg |-> ~d.neg, m |-> d.m]
TimeMinus(t, d) == TimePlus(t, Neg(d))
\* difference of two times
Diff(t1, t2) == IF Less(t1, t2) THEN [neg |-> TRUE, m |-> Sub(t2, t1)] ELSE [neg |-> FALSE, m |-> Sub(t1, t2)]
\* duration + duration
DPlus(a, b) ==
  IF a.neg = b.neg THEN [neg |-> a.neg, m |-> Add(a.m, b.m).m, over |-> Add(a.m, b.m).carry]
  ELSE IF Less(a.m, b.m) THEN [neg |-> b.neg, m |-> Sub(b.m, a.m), over |-> FALSE]
  ELSE IF a.m = b.m THEN [neg |-> FALSE, m |-> Zero, over |-> FALSE]
  ELSE [neg |-> a.neg, m |-> Sub(a.m, b.m), over |-> FALSE]

\* wire conversions
ToWire(t) == <<t[1], t[2], t[3]>>
SubNano(t) == t[4]                                     \* correction, 2^-16 ns units
FromWire(w) == <<w[1], w[2], w[3], 0, 0>>
\* duration -> wire time interval: rounds toward minus infinity to 2^-16 ns
ToInterval(d) ==
  IF ~d.neg \/ d.m[5] = 0 THEN [neg |-> d.neg /\ <<d.m[1], d.m[2], d.m[3], d.m[4]>> # <<0, 0, 0, 0>>, m |-> <<d.m[1], d.m[2], d.m[3], d.m[4], 0>>]
  ELSE [neg |-> TRUE, m |-> Add(<<d.m[1], d.m[2], d.m[3], d.m[4], 0>>, <<0, 0, 0, 1, 0>>).m]
FromInterval(i) == i

\* ---------------------------------------------------------------- laws, checked on every vector of the lattice
Law_AddSub(t, d) == TimePlus(t, d).st = "ok" => TimeMinus(TimePlus(t, d).t, d) = [st |-> "ok", t |-> t]
Law_DiffOfSum(t, d) == TimePlus(t, d).st = "ok" => Diff(TimePlus(t, d).t, t) = (IF d.m = Zero THEN [neg |-> FALSE, m |-> Zero] ELSE d)
Law_Wire(t) == LET back == Add(FromWire(ToWire(t)), <<0, 0, 0, SubNano(t), 0>>).m IN back = <<t[1], t[2], t[3], t[4], 0>>
Law_Interval(d) == d.m[5] = 0 => FromInterval(ToInterval(d)) = (IF d.m = Zero THEN [neg |-> FALSE, m |-> Zero] ELSE d)

\* ---------------------------------------------------------------- the lattice: every limb at 0, 1, max-1 / max, sign changes
CONSTANTS HiSet, LoSet, NsSet, FSet, DHiSet
Mags(hs) == {<<a, b, c, d, e>> : a \in hs, b \in LoSet, c \in NsSet, d \in FSet, e \in FSet}
Times == Mags(HiSet)
Durs == {[neg |-> s, m |-> m] : s \in BOOLEAN, m \in Mags(DHiSet)} \ {[neg |-> TRUE, m |-> Zero]}

VARIABLES vec, done
vars == <<vec, done>>
Init == vec \in Times \X Durs /\ done = FALSE
Next == ~done /\ done' = TRUE /\ UNCHANGED vec
Spec == Init /\ [][Next]_vars
Laws == LET t == vec[1]  d == vec[2] IN Law_AddSub(t, d) /\ Law_DiffOfSum(t, d) /\ Law_Wire(t) /\ Law_Interval([d EXCEPT !.m[5] = 0])
Out(t, d) ==
  [t |-> t, d |-> d, plus |-> TimePlus(t, d), minus |-> TimeMinus(t, d),
   diff |-> Diff(t, FromWire(ToWire(<<d.m[1] % 16, d.m[2], d.m[3], 0, 0>>))),      \* t - (a time built from d's limbs)
   wire |-> ToWire(t), subnano |-> SubNano(t), interval |-> ToInterval(d)]
Emit == PrintT(<<"E", ToJson(Out(vec[1], vec[2]))>>)
=============================================================================
