------------------------------ MODULE TimeLimbs ------------------------------
(***************************************************************************)
(* The limb arithmetic of the C16 reference (see TimeArith): mixed-radix   *)
(* magnitudes <<s_hi, s_lo, ns, f_hi, f_lo>> with schoolbook carries and   *)
(* borrows. A module of its own, with Apalache type annotations (comments  *)
(* to TLC), so that the text TLC evaluates for the vectors is the text     *)
(* Apalache proves equal to integer arithmetic for ALL values (ApaTime).   *)
(***************************************************************************)
EXTENDS Naturals, Integers, Sequences

B24 == 16777216
B16 == 65536
NS == 1000000000
\* @type: Seq(Int);
Zero == <<0, 0, 0, 0, 0>>

\* @type: (Seq(Int), Seq(Int)) => { m: Seq(Int), carry: Bool };
Add(a, b) ==       \* returns [m, carry]
  LET f0 == a[5] + b[5]                 c0 == f0 \div B16
      f1 == a[4] + b[4] + c0            c1 == f1 \div B16
      n  == a[3] + b[3] + c1            c2 == n \div NS
      l  == a[2] + b[2] + c2            c3 == l \div B24
      h  == a[1] + b[1] + c3
  IN [m |-> <<h % B24, l % B24, n % NS, f1 % B16, f0 % B16>>, carry |-> h >= B24]
\* @type: (Seq(Int), Seq(Int)) => Bool;
Less(a, b) == \E i \in 1..5 : a[i] < b[i] /\ \A j \in 1..5 : j < i => a[j] = b[j]
\* @type: (Seq(Int), Seq(Int)) => Seq(Int);
Sub(a, b) ==       \* a >= b
  LET f0 == a[5] + B16 - b[5]           b0 == IF f0 < B16 THEN 1 ELSE 0
      f1 == a[4] + B16 - b[4] - b0      b1 == IF f1 < B16 THEN 1 ELSE 0
      n  == a[3] + NS - b[3] - b1       b2 == IF n < NS THEN 1 ELSE 0
      l  == a[2] + B24 - b[2] - b2      b3 == IF l < B24 THEN 1 ELSE 0
      h  == a[1] - b[1] - b3
  IN <<h, l % B24, n % NS, f1 % B16, f0 % B16>>

=============================================================================
