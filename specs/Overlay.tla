------------------------------- MODULE Overlay -------------------------------
(***************************************************************************)
(* C18: the overlay clock (statime/src/overlay_clock.rs) as an exact       *)
(* affine map. u: underlying time elapsed in seconds; r: reading of the    *)
(* overlay clock relative to its start, in microseconds. While the         *)
(* frequency correction is ppm the reading advances (10^6 + ppm) micro-    *)
(* seconds per underlying second - exact in integers.                      *)
(***************************************************************************)
EXTENDS Naturals, Integers, Sequences, TLC, Json

CONSTANTS PpmSet, StepSet, AdvSet, MaxU, Depth
VARIABLES u, r, ppm, ret, hist
vars == <<u, r, ppm, ret, hist>>

\* value sets for the model-checking configurations (the cfg syntax has no negative numbers)
MC_Ppm == {-500, -100, 0, 100, 500}
MC_Step == {-10000000, -1000, 0, 1000, 10000000}      \* +-10 s, +-1 ms

Init == u = 0 /\ r = 0 /\ ppm = 0 /\ ret = 0 /\ hist = <<>>

\* the underlying clock advances by du seconds
Advance(du) == /\ u + du <= MaxU
               /\ u' = u + du /\ r' = r + du * (1000000 + ppm) /\ UNCHANGED <<ppm, ret>>
               /\ hist' = Append(hist, [e |-> "adv", du |-> du])
\* set_frequency(p): the reading is continuous, the call returns the reading
SetFrequency(p) == /\ ppm' = p /\ UNCHANGED <<u, r>> /\ ret' = r
                   /\ hist' = Append(hist, [e |-> "freq", ppm |-> p])
\* step_clock(d): the reading jumps by exactly d (microseconds), the call returns the new reading
StepClock(d) == /\ r' = r + d /\ UNCHANGED <<u, ppm>> /\ ret' = r + d
                /\ hist' = Append(hist, [e |-> "step", d |-> d])

Next == \/ \E du \in AdvSet : Advance(du)
        \/ \E p \in PpmSet : SetFrequency(p)
        \/ \E d \in StepSet : StepClock(d)
Spec == Init /\ [][Next]_vars

View == <<u, r, ppm>>
Bound == Len(hist) < Depth
Emit == PrintT(<<"E", ToJson([hist |-> hist', exp |-> [r |-> r', ret |-> ret', ppm |-> ppm']])>>)

\* the properties, as statements about the model (they hold by construction of the three actions; the replay
\* checks them on the real OverlayClock after every edge)
Continuous == [][(\E p \in PpmSet : SetFrequency(p)) => r' = r]_vars
ExactStep == [][\A d \in StepSet : StepClock(d) => r' - r = d]_vars
Rate == [][\A du \in AdvSet : Advance(du) => r' - r = du * (1000000 + ppm)]_vars
ReturnsNow == [][(\E p \in PpmSet : SetFrequency(p)) \/ (\E d \in StepSet : StepClock(d)) => ret' = r']_vars
\* 32-bit safety of the model itself
InRange == r > -2000000000 /\ r < 2100000000
=============================================================================
