-------------------------------- MODULE MCFm --------------------------------
(***************************************************************************)
(* C06: one port, one to three foreign masters; the environment delivers,  *)
(* per BMCA epoch and master, any mix of the next Announce, a duplicate, a *)
(* stale one, a skipped one, sequence ids straddling 65535 -> 0, in any    *)
(* order relative to BMCA runs and receipt timeouts. A bounded ghost       *)
(* window records, per master and for the last five epochs, how many       *)
(* Announces (and how many fresh, distinct ones) arrived.                  *)
(***************************************************************************)
EXTENDS Instance, Json

CONSTANTS Depth, Masters, StepsOf255, Start2, Sibling
\* Start2: first sequence id of master 2 (65534: straddles 65535 -> 0; 32766: straddles 32767 -> 32768);
\* Sibling: the environment also delivers Announces of another port of the own instance (same clock identity, port 2)
VARIABLES st, env, res, hist
vars == <<st, env, res, hist>>

MC_Own == 5
MC_OwnP == [p1 |-> 128, p2 |-> 128]
MC_Q0 == [class |-> 248, acc |-> 254, var |-> 65535]
MC_TP0 == [utc |-> NoUtc, leap |-> 0, tt |-> FALSE, ft |-> FALSE, ptp |-> FALSE, src |-> 160]
PCfg_E == << [p2p |-> FALSE, mo |-> FALSE, aml |-> AnyId, keep |-> 1] >>
PCfg_K == << [p2p |-> FALSE, mo |-> FALSE, aml |-> AnyId, keep |-> 2] >>   \* announce interval twice the BMCA interval: needs a 2nd port in the world

\* master 2 is better than the local clock, 3 better still, 9 is worse; 4 is better but reports stepsRemoved 255
GmOf(m) == CASE m = 2 -> <<127, 248, 254, 65535, 128, 2>>
             [] m = 3 -> <<126, 248, 254, 65535, 128, 3>>
             [] m = 4 -> <<100, 248, 254, 65535, 128, 4>>
             [] OTHER -> <<128, 248, 254, 65535, 128, m>>
StepsOf(m) == IF m = 4 THEN StepsOf255 ELSE 0
Start(m) == IF m = 2 THEN Start2 ELSE 0
Better(m) == GmLess(GmOf(m), OwnAttr(MC_Q0)) /\ StepsOf(m) < 255

W == 5   \* ghost window (epochs)
ZW == [all |-> 0, fresh |-> 0, seqs |-> {}]
Init == /\ st = Init0
        /\ env = [mseq |-> [m \in Masters |-> Start(m)], sent |-> [m \in Masters |-> FALSE],
                  \* win[m][i]: receptions in the i-th most recent epoch (1 = current): [all, fresh]
                  win |-> [m \in Masters |-> <<ZW, ZW, ZW, ZW, ZW>>]]
        /\ res = [out |-> <<>>]
        /\ hist = <<>>

AnnEv(m, kind) ==
  LET cur == env.mseq[m]
      seq == CASE kind = "next" -> cur
               [] kind = "dup" -> (cur + 65535) % SeqMod
               [] kind = "stale" -> (cur + 65534) % SeqMod
               [] kind = "skip" -> (cur + 1) % SeqMod
  IN [e |-> "ann", p |-> 1, src |-> <<m, 1>>, seq |-> seq, g |-> GmOf(m), steps |-> StepsOf(m), kind |-> kind]

Events ==
  {AnnEv(m, "next") : m \in Masters}
  \cup {AnnEv(m, k) : m \in {x \in Masters : env.sent[x]}, k \in {"dup", "stale", "skip"}}
  \cup (IF Sibling THEN {[e |-> "ann", p |-> 1, src |-> <<Own, 2>>, seq |-> 3, g |-> OwnAttr(MC_Q0), steps |-> 0, kind |-> "sib"]} ELSE {})
  \cup {[e |-> "bmca"], [e |-> "t", k |-> "rcpt", p |-> 1]}

Cap(n) == IF n > 2 THEN 2 ELSE n
EnvStep(ev) ==
  IF ev.e = "ann" /\ ev.kind = "sib" THEN env
  ELSE IF ev.e = "ann" THEN
     LET m == ev.src[1]
         cur == env.mseq[m]
         fresh == ev.kind \in {"next", "skip"}
         nxt == IF ev.kind = "next" THEN (cur + 1) % SeqMod ELSE IF ev.kind = "skip" THEN (cur + 2) % SeqMod ELSE cur
     IN [env EXCEPT !.mseq[m] = nxt, !.sent[m] = TRUE,
                    !.win[m][1] = [all |-> Cap(@.all + 1), fresh |-> Cap(@.fresh + (IF fresh THEN 1 ELSE 0)), seqs |-> @.seqs \cup {ev.seq}]]
  ELSE IF ev.e = "bmca" THEN
     [env EXCEPT !.win = TLCEval([m \in Masters |-> <<ZW>> \o SubSeq(env.win[m], 1, W - 1)])]
  ELSE env

Next == \E ev \in Events :
          LET r == Step(st, ev) IN
          /\ st' = r.s
          /\ res' = [x \in (DOMAIN r) \ {"s", "dec"} |-> r[x]]
          /\ env' = EnvStep(ev)
          /\ hist' = Append(hist, ev)
Spec == Init /\ [][Next]_vars
View == <<ViewOf(st), env>>
Bound == Len(hist) < Depth
\* plain TLC runs (no edge emission): force TLC to normalise lazily evaluated values before a state is queued
Norm == ToJson(st') # "" /\ ToJson(res') # ""
Emit == PrintT(<<"E", ToJson([hist |-> hist', exp |-> Proj(st') @@ res'])>>)

\* ---------------------------------------------------------------- C06 on the model
RECURSIVE SumAll(_, _, _)
SumAll(w, i, k) == IF i > W THEN 0 ELSE w[i][k] + SumAll(w, i + 1, k)
Parent == IF st.pst[1] = "S" THEN st.ppi[1] ELSE 0
\* a master is the parent only if at least two of its Announces arrived within the window (the epochs 2..5 of the
\* ghost window are the four announce intervals before the BMCA that selected or kept it)
NeedTwo == Parent # 0 => SumAll(env.win[Parent], 1, "all") >= 2
\* ... and, as IEEE 1588 demands, two DISTINCT messages (holds in the intended design, DevDup = FALSE)
NeedTwoDistinct == Parent # 0 => Cardinality(UNION {env.win[Parent][i].seqs : i \in 1..W}) >= 2
NeverUnqualified == Parent # 0 => StepsOf(Parent) < 255 /\ Parent # Own
\* a master that has been silent for the whole window is in no decision: not the parent, not in the list
Expires == \A m \in Masters : SumAll(env.win[m], 1, "all") = 0 => (Parent # m /\ FmIdx(st.fml[1], <<m, 1>>) = 0)
\* a better master announcing freshly in each of the last three completed epochs is the parent after the BMCA
\* (unless an even better one is around): it is never dropped, also across 65535 -> 0
Regular(m) == \A i \in 2..4 : env.win[m][i].fresh >= 1
BestRegular(m) == Better(m) /\ Regular(m) /\ \A o \in Masters \ {m} : GmLess(GmOf(o), GmOf(m)) => SumAll(env.win[o], 1, "all") = 0
Sticks == (Len(hist) > 0 /\ hist[Len(hist)].e = "bmca") => \A m \in Masters : BestRegular(m) => Parent = m
=============================================================================
