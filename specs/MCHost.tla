------------------------------- MODULE MCHost -------------------------------
(***************************************************************************)
(* C12: the instance composed with a host that obeys timer actions, as     *)
(* statime-linux does (main.rs: handle_actions / port_task): per port five *)
(* timers, armed only by the Reset*Timer actions the library returns, and  *)
(* disarmed when they fire. A timer can fire only while armed.             *)
(*                                                                         *)
(* Safety: NoOrphanWait - a port that needs a timer to make progress has   *)
(* it armed. Liveness (SeqMod = 1, Ghost = FALSE, no state constraint):    *)
(* once the network falls silent every master-capable port ends up master  *)
(* and keeps announcing and syncing; while a better master announces       *)
(* steadily the port becomes and stays its slave and keeps sending delay   *)
(* requests.                                                               *)
(***************************************************************************)
EXTENDS Instance, Json

CONSTANTS Depth, WithPd, Emitting, FreeBudget
VARIABLES st, armed, mode, rnd, tog, res, hist, fb, orph
vars == <<st, armed, mode, rnd, tog, res, hist, fb, orph>>

MC_Own == 5
MC_OwnP == [p1 |-> 128, p2 |-> 128]
MC_Q0 == [class |-> 248, acc |-> 254, var |-> 65535]
MC_TP0 == [utc |-> NoUtc, leap |-> 0, tt |-> FALSE, ft |-> FALSE, ptp |-> FALSE, src |-> 160]
E2E(mo, aml) == [p2p |-> FALSE, mo |-> mo, aml |-> aml, keep |-> 1]
P2P(mo, aml) == [p2p |-> TRUE, mo |-> mo, aml |-> aml, keep |-> 1]
PCfg_E == << E2E(FALSE, AnyId) >>
PCfg_P == << P2P(FALSE, AnyId) >>
PCfg_A == << E2E(FALSE, AnyId), E2E(FALSE, AnyId) >>
PCfg_B == << E2E(FALSE, AnyId), E2E(TRUE, AnyId) >>

Parent == <<2, 1>>
GmP == <<127, 248, 254, 65535, 128, 2>>
TpP == [utc |-> 37, leap |-> 0, tt |-> TRUE, ft |-> TRUE, ptp |-> TRUE, src |-> 32]
RespA == <<7, 1>>
RespB == <<8, 1>>
Kinds == {"ann", "sync", "dreq", "rcpt", "filt"}

Init == /\ st = Init0
        /\ armed = [p \in Ports |-> {"rcpt"}]       \* Port::new: pending ResetAnnounceReceiptTimer, handed out by end_bmca
        /\ mode = "free"
        /\ rnd = [a |-> FALSE, b |-> FALSE]
        /\ tog = [p \in Ports |-> [ann |-> 0, sync |-> 0, dreq |-> 0]]
        /\ res = [out |-> <<>>]
        /\ hist = <<>>
        /\ orph = [p \in Ports |-> FALSE]     \* ghost: the port left the faulty state into LISTENING with no receipt timer armed (the recorded finding) and none was armed since
        /\ fb = FreeBudget           \* number of steps the free phase may still take (FreeBudget = 0: unbounded)

TimersOf(acts) == {acts[i].k : i \in {j \in 1..Len(acts) : acts[j].a = "T"}}
SendsOf(acts, t) == \E i \in 1..Len(acts) : acts[i].a \in {"E", "G"} /\ acts[i].t = t

\* the host: perform the returned actions of port p (arm timers), note emissions
Host(r, p, fired) ==
  /\ armed' = [q \in Ports |->
                 LET base == IF q = p THEN armed[q] \ fired ELSE armed[q]
                     acts == IF "pend" \in DOMAIN r THEN r.pend[q] ELSE IF q = p THEN r.out ELSE <<>>
                 IN base \cup TimersOf(acts)]
  /\ orph' = [q \in Ports |-> IF "rcpt" \in armed'[q] THEN FALSE
                               ELSE IF st.pst[q] = "F" /\ r.s.pst[q] = "L" THEN TRUE ELSE orph[q]]
  /\ tog' = [q \in Ports |->
               LET acts == IF "pend" \in DOMAIN r THEN r.pend[q] ELSE IF q = p THEN r.out ELSE <<>> IN
               [ann |-> IF SendsOf(acts, "Announce") THEN 1 - tog[q].ann ELSE tog[q].ann,
                sync |-> IF SendsOf(acts, "Sync") THEN 1 - tog[q].sync ELSE tog[q].sync,
                dreq |-> IF SendsOf(acts, "DelayReq") \/ SendsOf(acts, "PdelayReq") THEN 1 - tog[q].dreq ELSE tog[q].dreq]]

Do(ev, p, fired) ==
  LET r == Step(st, ev) IN
  /\ st' = r.s
  /\ res' = IF Emitting THEN [x \in (DOMAIN r) \ {"s", "dec"} |-> r[x]] ELSE res      \* the liveness model does not keep the last result
  /\ Host(r, p, fired)
  /\ hist' = IF Emitting THEN Append(hist, ev) ELSE hist
  /\ ((mode = "free" /\ FreeBudget # 0) => fb # 0)
  /\ fb' = IF mode = "free" /\ fb > 0 THEN fb - 1 ELSE fb

Fire(p, k) == /\ k \in armed[p]
              /\ (k = "rcpt" => mode # "steady")          \* Announces keep arriving within the timeout
              /\ Do([e |-> "t", k |-> k, p |-> p], p, {k})
              /\ UNCHANGED <<mode, rnd>>
FireAnn(p) == Fire(p, "ann")
FireSync(p) == Fire(p, "sync")
FireDreq(p) == Fire(p, "dreq")
FireRcpt(p) == Fire(p, "rcpt")
FireFilt(p) == Fire(p, "filt")

RecvAnn(p) == /\ mode \in {"free", "steady"}
              /\ (mode = "steady" => (~rnd.a /\ p = 1))
              /\ Do([e |-> "ann", p |-> p, src |-> Parent, seq |-> 0, g |-> GmP, steps |-> 0, tp |-> TpP], p, {})
              /\ rnd' = IF mode = "steady" THEN [rnd EXCEPT !.a = TRUE] ELSE rnd
              /\ UNCHANGED mode
Bmca == /\ (mode = "steady" => ~rnd.b)
        /\ Do([e |-> "bmca"], 1, {})
        /\ rnd' = IF mode = "steady" THEN [rnd EXCEPT !.b = TRUE] ELSE rnd
        /\ UNCHANGED mode
EndRound == /\ mode = "steady" /\ rnd.a /\ rnd.b
            /\ rnd' = [a |-> FALSE, b |-> FALSE]
            /\ UNCHANGED <<st, armed, mode, tog, res, hist, fb, orph>>
SetSo(v) == mode = "free" /\ Do([e |-> "so", v |-> v], 1, {}) /\ UNCHANGED <<mode, rnd>>

\* peer delay (P2P ports): transmit timestamp of the outstanding request, responses from two responders
PdTs(p) == /\ WithPd /\ mode = "free" /\ Ghost
           /\ \E i \in 1..Len(st.ctx[p]) : st.ctx[p][i].k = "PDelayReq"
                /\ Do([e |-> "ts", p |-> p, c |-> i, t |-> "tq_" \o ToString(i)], p, {}) /\ UNCHANGED <<mode, rnd>>
PdResp(p, r) == /\ WithPd /\ mode = "free" /\ st.pd[p].st # "E"
                /\ Do([e |-> "pdresp", p |-> p, src |-> r, seq |-> st.pd[p].id, req |-> <<Own, p>>, two |-> FALSE,
                       w2 |-> "w2_" \o ToString(r[1]), c |-> "cr_" \o ToString(r[1]), rx |-> "t4_" \o ToString(r[1])], p, {})
                /\ UNCHANGED <<mode, rnd>>
Settle(m) == /\ mode = "free" /\ mode' = m /\ rnd' = [a |-> FALSE, b |-> FALSE]
             /\ UNCHANGED <<st, armed, tog, res, hist, fb, orph>>

Next == \/ \E p \in Ports : FireAnn(p) \/ FireSync(p) \/ FireDreq(p) \/ FireRcpt(p) \/ FireFilt(p) \/ RecvAnn(p)
        \/ Bmca \/ EndRound
        \/ \E v \in BOOLEAN : SetSo(v)
        \/ \E p \in Ports : PdTs(p) \/ \E r \in {RespA, RespB} : PdResp(p, r)
        \/ Settle("silence") \/ Settle("steady")

Fair == /\ \A p \in Ports : WF_vars(FireAnn(p)) /\ WF_vars(FireSync(p)) /\ WF_vars(FireDreq(p)) /\ WF_vars(FireRcpt(p))
        /\ WF_vars(Bmca) /\ WF_vars(RecvAnn(1)) /\ WF_vars(EndRound)
Spec == Init /\ [][Next]_vars
LiveSpec == Init /\ [][Next]_vars /\ Fair

View == <<ViewOf(st), armed, mode, rnd, fb, orph>>
Bound == Len(hist) < Depth
Norm == ToJson(st') # "" /\ ToJson(res') # ""
Emit == PrintT(<<"E", ToJson([hist |-> hist', exp |-> Proj(st') @@ res'])>>)

(***************************************************************************)
(* Safety: no port waits on a timer that was never armed.                  *)
(* (Slave and Passive ports are moved by BMCA when their masters age out;  *)
(* a Listening port without a qualified master is the one state BMCA does  *)
(* not leave, so it needs the receipt timer.)                              *)
(***************************************************************************)
Needs(p) ==
  CASE st.pst[p] = "M" -> {"ann", "sync"}
    [] st.pst[p] = "L" -> {"rcpt"}
    [] st.pst[p] = "S" -> IF PCfg[p].p2p THEN {} ELSE {"dreq"}
    [] OTHER -> {}
PdNeeds(p) == IF PCfg[p].p2p /\ st.pd[p].st # "E" THEN {"dreq"} ELSE {}
NoOrphanWait == \A p \in Ports : (Needs(p) \cup PdNeeds(p)) \subseteq armed[p]
\* the recorded deviation: a P2P port that was master (receipt timer spent) and recovers from the faulty state is
\* listening without a receipt timer. Anything else is new.
RecoveredOrphan(p) == PCfg[p].p2p /\ st.pst[p] = "L" /\ "rcpt" \notin armed[p] /\ orph[p]
NoOrphanWaitButKnown == \A p \in Ports : (Needs(p) \cup PdNeeds(p)) \subseteq armed[p] \/ RecoveredOrphan(p)

(***************************************************************************)
(* Liveness                                                                *)
(***************************************************************************)
MasterCapable(p) == ~st.so
LiveSilence ==
  (<>[](mode = "silence")) =>
     \A p \in Ports :
        \/ <>[](st.so)
        \/ <>[](st.pst[p] = "F")                   \* the property's exception: a port disabled by a peer-delay fault (silence brings no clean exchange)
        \/ <>[](RecoveredOrphan(p))                \* the recorded finding: recovered from the fault into LISTENING without a receipt timer
        \/ (<>[](st.pst[p] = "M") /\ []<>(tog[p].ann = 0) /\ []<>(tog[p].ann = 1) /\ []<>(tog[p].sync = 0) /\ []<>(tog[p].sync = 1))
\* slave-only instances end up listening with the receipt timer running
LiveSilenceSlaveOnly ==
  (<>[](mode = "silence" /\ st.so)) => \A p \in Ports : \/ <>[](st.pst[p] = "L" /\ "rcpt" \in armed[p])
                                                          \/ <>[](st.pst[p] = "F") \/ <>[](RecoveredOrphan(p))
LiveSteady ==
  (<>[](mode = "steady")) =>
     \/ (<>[](st.pst[1] = "S") /\ (PCfg[1].p2p \/ ([]<>(tog[1].dreq = 0) /\ []<>(tog[1].dreq = 1))))
     \/ <>[](st.pst[1] = "F")      \* disabled by a peer-delay fault and never offered a clean exchange
=============================================================================
