-------------------------------- MODULE MCNet --------------------------------
(* topologies and rankings for the model-checking configurations of Network *)
EXTENDS Network

\* ---- two nodes
Topo_Link == {{<<1, 1>>, <<2, 1>>}}                                  \* one point-to-point link
Topo_Par == {{<<1, 1>>, <<2, 1>>}, {<<1, 2>>, <<2, 2>>}}             \* two parallel links
Topo_Multi == {{<<1, 1>>, <<1, 2>>, <<2, 1>>}}                       \* two ports of node 1 on the segment of node 2
NP_11 == <<1, 1>>
NP_22 == <<2, 2>>
NP_21 == <<2, 1>>
\* ---- three and four nodes
Topo_Chain3 == {{<<1, 1>>, <<2, 1>>}, {<<2, 2>>, <<3, 1>>}}
Topo_Star3 == {{<<1, 1>>, <<2, 1>>}, {<<1, 2>>, <<3, 1>>}}
Topo_Ring3 == {{<<1, 1>>, <<2, 1>>}, {<<2, 2>>, <<3, 1>>}, {<<3, 2>>, <<1, 2>>}}
Topo_Shared3 == {{<<1, 1>>, <<2, 1>>, <<3, 1>>}}
Topo_Chain4 == {{<<1, 1>>, <<2, 1>>}, {<<2, 2>>, <<3, 1>>}, {<<3, 2>>, <<4, 1>>}}
Topo_Ring4 == {{<<1, 1>>, <<2, 1>>}, {<<2, 2>>, <<3, 1>>}, {<<3, 2>>, <<4, 1>>}, {<<4, 2>>, <<1, 2>>}}
NP_121 == <<1, 2, 1>>
NP_211 == <<2, 1, 1>>
NP_222 == <<2, 2, 2>>
NP_111 == <<1, 1, 1>>
NP_1221 == <<1, 2, 2, 1>>
NP_2222 == <<2, 2, 2, 2>>
\* ---- rankings (priority1 decides unless equal; then the identity)
Prio_12 == <<100, 200>>
Prio_21 == <<200, 100>>
Prio_Eq2 == <<128, 128>>
Prio_123 == <<100, 150, 200>>
Prio_321 == <<200, 150, 100>>
Prio_213 == <<150, 100, 200>>
Prio_1234 == <<100, 150, 200, 250>>
Prio_3142 == <<200, 100, 250, 150>>
P2_2 == <<128, 128>>
P2_3 == <<128, 128, 128>>
P2_4 == <<128, 128, 128, 128>>
Prio_Eq3 == <<128, 128, 128>>
P2_3relay == <<100, 128, 110>>   \* priority2 decides; the relay in the middle has the worst one
P2_2dec == <<127, 126>>           \* priority2 decides between two nodes
NoCut == {}
Cut_Ring3 == {{<<3, 2>>, <<1, 2>>}}      \* the ring starts as a chain; the closing link comes up later
Cut_Par == {{<<1, 2>>, <<2, 2>>}}
Cls_2 == <<248, 248>>
Cls_2low == <<248, 6>>          \* node 2 has clockClass 6 (never slave) but the worse priority1
Cls_2so == <<248, 255>>         \* node 2 slave-only: clockClass 255
Cls_3 == <<248, 248, 248>>
Cls_3so == <<248, 248, 255>>
Cls_4 == <<248, 248, 248, 248>>
So_2 == <<FALSE, FALSE>>
So_2b == <<FALSE, TRUE>>        \* node 2 slave-only
So_3 == <<FALSE, FALSE, FALSE>>
So_3c == <<FALSE, FALSE, TRUE>>
So_4 == <<FALSE, FALSE, FALSE, FALSE>>
NoFaults == {}
AllFaults == {"cut", "silence", "quality"}
RestoreFaults == {"restore", "cut"}
QualityFaults == {"quality"}
=============================================================================
