------------------------------ MODULE TraceLoop ------------------------------
(***************************************************************************)
(* Binding B for C02: a closed-loop run of a real slave port with the real *)
(* Kalman servo against a simulated master and oscillator                  *)
(* (harness/src/bin/servoloop.rs) is accepted iff                           *)
(*   - every clock command satisfies the guards of Servo.tla (C13), and    *)
(*   - once t >= Tconv (Locked) the true offset observed at every Sync     *)
(*     arrival is at most Bound, and the clock is never stepped again.     *)
(* Tconv = max(1200 s, 600 sync intervals) and Bound(j) = 0.5 us + 3 j     *)
(* were calibrated on the unchanged tree (worst observed: 398 s; 1 ns,     *)
(* 0.94 us, 8.1 us for jitter 0, 1, 20 us) and are frozen in the driver    *)
(* which writes them into each run's "new" event.                           *)
(***************************************************************************)
EXTENDS Naturals, Integers, Sequences, TLC, Json, IOUtils

Rec == ndJsonDeserialize(IOEnv.TRACE)
VARIABLES l, tconv, bound, maxf, thr, locked
tvars == <<l, tconv, bound, maxf, thr, locked>>

TInit == l = 1 /\ tconv = 0 /\ bound = 0 /\ maxf = 0 /\ thr = 0 /\ locked = FALSE
IsEvent(e) == l <= Len(Rec) /\ Rec[l].e = e /\ l' = l + 1
Lock(t) == locked' = (locked \/ t >= tconv)
TNew == IsEvent("new") /\ tconv' = Rec[l].tconv /\ bound' = Rec[l].bound /\ maxf' = Rec[l].maxf /\ thr' = Rec[l].thr /\ locked' = FALSE
\* the true offset at a Sync arrival: unconstrained while acquiring, bounded once locked
TObs == /\ IsEvent("obs") /\ Lock(Rec[l].t)
        /\ (Rec[l].t >= tconv => Rec[l].off <= bound)
        /\ UNCHANGED <<tconv, bound, maxf, thr>>
\* slewing: always finite and within the servo's range
TFreq == /\ IsEvent("freq") /\ Lock(Rec[l].t)
         /\ Rec[l].fin /\ Rec[l].mag <= maxf
         /\ UNCHANGED <<tconv, bound, maxf, thr>>
\* stepping: only while acquiring, finite, at least the threshold
TStep == /\ IsEvent("step") /\ Lock(Rec[l].t)
         /\ Rec[l].t < tconv
         /\ Rec[l].fin /\ Rec[l].mag + 1 >= thr
         /\ UNCHANGED <<tconv, bound, maxf, thr>>
TNext == TNew \/ TObs \/ TFreq \/ TStep
TSpec == TInit /\ [][TNext]_tvars
Accepted == IF TLCGet("stats").diameter - 1 = Len(Rec) THEN TRUE
            ELSE Print(<<"REJECTED at line", TLCGet("stats").diameter, Rec[TLCGet("stats").diameter]>>, FALSE)
=============================================================================
