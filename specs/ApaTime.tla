------------------------------- MODULE ApaTime -------------------------------
(***************************************************************************)
(* C16: the limb arithmetic of the reference (module TimeLimbs, the very   *)
(* text TLC evaluates when it produces the vectors) is integer arithmetic: *)
(* discharged by Apalache for ALL well-formed magnitudes, so the reference *)
(* the implementation is compared against cannot itself be wrong in a      *)
(* corner the lattice does not visit.                                      *)
(*   apalache-mc check --init=Init --next=Next --inv=Laws --length=0 ApaTime.tla   (run by bin/check C16) *)
(***************************************************************************)
EXTENDS TimeLimbs, Apalache

VARIABLES
  \* @type: Seq(Int);
  a,
  \* @type: Seq(Int);
  b

\* the value of a magnitude in units of 2^-32 ns
\* @type: Seq(Int) => Int;
Val(m) == ((m[1] * B24 + m[2]) * NS + m[3]) * (B16 * B16) + m[4] * B16 + m[5]
\* @type: Seq(Int) => Bool;
WF(m) == /\ Len(m) = 5 /\ 0 <= m[1] /\ m[1] < B24 /\ 0 <= m[2] /\ m[2] < B24 /\ 0 <= m[3] /\ m[3] < NS
         /\ 0 <= m[4] /\ m[4] < B16 /\ 0 <= m[5] /\ m[5] < B16
Top == B24 * B24 * NS * (B16 * B16)      \* 2^48 s in 2^-32 ns

Init == a = Gen(5) /\ b = Gen(5) /\ WF(a) /\ WF(b)
Next == UNCHANGED <<a, b>>

AddExact == LET r == Add(a, b) IN WF(r.m) /\ Val(r.m) + (IF r.carry THEN Top ELSE 0) = Val(a) + Val(b)
LessExact == Less(a, b) <=> Val(a) < Val(b)
SubExact == ~Less(a, b) => (WF(Sub(a, b)) /\ Val(Sub(a, b)) = Val(a) - Val(b))
Laws == AddExact /\ LessExact /\ SubExact
=============================================================================
