SPECIFICATION Spec
CONSTANTS
  Own <- MC_Own
  OwnP <- MC_OwnP
  Q0 <- MC_Q0
  SO0 = FALSE
  PTrace = FALSE
  TP0 <- MC_TP0
  PCfg <- MC_PCfg
  Fwd = FALSE
  EmptyOnBmca = FALSE
  Depth = 6
VIEW View
CONSTRAINT Bound
ACTION_CONSTRAINT Emit
INVARIANT OneSlave
CHECK_DEADLOCK FALSE
