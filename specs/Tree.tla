-------------------------------- MODULE Tree --------------------------------
(***************************************************************************)
(* C01: the predicate "one grandmaster and a loop-free master/slave tree"  *)
(* over a global view g = [pst, ppi, gm, steps, so, q, segs, alive] of a   *)
(* network (pst[n]: sequence of port states of node n; ppi[n]: parent port *)
(* identity; gm[n]: grandmaster attributes <<p1, class, acc, var, p2, id>> *)
(* held by node n; segs: set of segments (sets of <<node, port>>); alive:  *)
(* set of nodes). Used on the model's states (Network) and on the logged   *)
(* states of the free-running simulation of the real code (TraceNet).      *)
(***************************************************************************)
EXTENDS Naturals, Integers, Sequences, FiniteSets

\* attributes by which the instances are ranked (Figure 34 on the own data sets)
OwnAttrOf(g, prio, n) == <<prio[n], g.q[n].class, g.q[n].acc, g.q[n].var, 128, n>>
GmLessT(a, b) == \E i \in 1..6 : a[i] < b[i] /\ \A j \in 1..(i - 1) : a[j] = b[j]
Linked(g, a, b) == \E s \in g.segs : (\E p \in s : p[1] = a) /\ (\E p \in s : p[1] = b)
RECURSIVE Reach(_, _, _)
Reach(g, S, k) == IF k = 0 THEN S ELSE Reach(g, S \cup {b \in g.alive : \E a \in S : Linked(g, a, b)}, k - 1)
Comp(g, n, nn) == Reach(g, {n}, nn)
MasterCapable(g, n) == ~g.so[n]
MaySlave(g, n) == g.q[n].class = 0 \/ g.q[n].class >= 128
SegPorts(g, s) == {p \in s : p[1] \in g.alive}

TreeOKOf(g, prio, nn, allports) ==
  \A c \in {Comp(g, n, nn) : n \in g.alive} :
    LET cap == {n \in c : MasterCapable(g, n)} IN
    cap # {} =>
      LET b == CHOOSE x \in cap : \A y \in cap \ {x} : GmLessT(OwnAttrOf(g, prio, x), OwnAttrOf(g, prio, y)) IN
      \* the best master-capable instance is grandmaster
      /\ g.gm[b] = OwnAttrOf(g, prio, b) /\ g.steps[b] = 0
      \* every other instance that may be slave: exactly one slave port, grandmaster b, parent a master port on the
      \* same segment, one step further from the grandmaster than its parent
      /\ \A n \in c \ {b} : MaySlave(g, n) =>
           /\ Cardinality({i \in DOMAIN g.pst[n] : g.pst[n][i] = "S"}) = 1
           /\ g.gm[n] = OwnAttrOf(g, prio, b)
           /\ LET sp == CHOOSE i \in DOMAIN g.pst[n] : g.pst[n][i] = "S"
                  pp == g.ppi[n]
              IN /\ pp[1] \in c /\ pp[1] # n
                 /\ \E s \in g.segs : <<n, sp>> \in s /\ pp \in s
                 /\ g.pst[pp[1]][pp[2]] = "M"
                 /\ g.steps[n] = g.steps[pp[1]] + 1
      \* every segment with a master-capable instance attached has exactly one master port
      /\ \A s \in g.segs :
           (SegPorts(g, s) \cap {p \in allports : p[1] \in c} # {} /\ \E p \in SegPorts(g, s) : MasterCapable(g, p[1]))
           => Cardinality({p \in SegPorts(g, s) : g.pst[p[1]][p[2]] = "M"}) = 1

=============================================================================
