-------------------------------- MODULE Tree --------------------------------
(***************************************************************************)
(* C01: the predicate "one grandmaster and a loop-free master/slave tree"  *)
(* over a global view g = [pst, ppi, gm, steps, so, q, segs, alive] of a   *)
(* network (p2[n]: priority2 of node n; pst[n]: sequence of port states of node n; ppi[n]: parent port *)
(* identity; gm[n]: grandmaster attributes <<p1, class, acc, var, p2, id>> *)
(* held by node n; segs: set of segments (sets of <<node, port>>); alive:  *)
(* set of nodes). Used on the model's states (Network) and on the logged   *)
(* states of the free-running simulation of the real code (TraceNet).      *)
(***************************************************************************)
EXTENDS Naturals, Integers, Sequences, FiniteSets

\* attributes by which the instances are ranked (Figure 34 on the own data sets)
OwnAttrOf(g, prio, n) == <<prio[n], g.q[n].class, g.q[n].acc, g.q[n].var, g.p2[n], n>>
GmLessT(a, b) == \E i \in 1..6 : a[i] < b[i] /\ \A j \in 1..(i - 1) : a[j] = b[j]
Linked(g, a, b) == \E s \in g.segs : (\E p \in s : p[1] = a) /\ (\E p \in s : p[1] = b)
RECURSIVE Reach(_, _, _)
Reach(g, S, k) == IF k = 0 THEN S ELSE Reach(g, S \cup {b \in g.alive : \E a \in S : Linked(g, a, b)}, k - 1)
Comp(g, n, nn) == Reach(g, {n}, nn)
MasterCapable(g, n) == ~g.so[n]
MaySlave(g, n) == g.q[n].class = 0 \/ g.q[n].class >= 128
SegPorts(g, s) == {p \in s : p[1] \in g.alive}

\* An instance with clockClass 1..127 never becomes slave (Figure 33: M1 or P1): it is passive towards a better master and the
\* grandmaster of whatever lies behind it, and it relays nothing. A slave-only instance relays nothing either. So the master an
\* instance n can have is the best of the master-capable instances it can reach through relays (instances that may be slave
\* and are not slave-only); where no clockClass < 128 instance sits between others this is "the best instance of the component".
Relay(g, n) == MaySlave(g, n) /\ ~g.so[n]
RECURSIVE RelayReach(_, _, _, _)
RelayReach(g, n, S, k) ==
  IF k = 0 THEN S
  ELSE RelayReach(g, n, S \cup {b \in g.alive : \E a \in S : (a = n \/ Relay(g, a)) /\ Linked(g, a, b)}, k - 1)
RC(g, n, nn) == RelayReach(g, n, {n}, nn)
BestOf(g, prio, cand) == CHOOSE x \in cand : \A y \in cand \ {x} : GmLessT(OwnAttrOf(g, prio, x), OwnAttrOf(g, prio, y))
SlavePorts(g, n) == {i \in DOMAIN g.pst[n] : g.pst[n][i] = "S"}

NodeOK(g, prio, nn, n) ==
  LET rc == RC(g, n, nn)
      cand == {r \in rc : MasterCapable(g, r)}
  IN
  IF ~MaySlave(g, n) THEN
       \* never slave; grandmaster of what is behind its master ports (a port that is passive by P1 updates no data set, so an
       \* instance all of whose ports are passive keeps the parent data set it had)
       /\ SlavePorts(g, n) = {}
       /\ (\E i \in DOMAIN g.pst[n] : g.pst[n][i] = "M") => (g.gm[n] = OwnAttrOf(g, prio, n) /\ g.steps[n] = 0)
  ELSE IF cand = {} THEN SlavePorts(g, n) = {}
  ELSE
    LET b == BestOf(g, prio, cand) IN
    IF b = n THEN g.gm[n] = OwnAttrOf(g, prio, n) /\ g.steps[n] = 0 /\ SlavePorts(g, n) = {}
    ELSE
      \* exactly one slave port, grandmaster b, parent a master port on the same segment, one step further from the grandmaster
      /\ Cardinality(SlavePorts(g, n)) = 1
      /\ g.gm[n] = OwnAttrOf(g, prio, b)
      /\ LET sp == CHOOSE i \in SlavePorts(g, n) : TRUE
             pp == g.ppi[n]
         IN /\ pp[1] \in rc /\ pp[1] # n
            /\ \E s \in g.segs : <<n, sp>> \in s /\ pp \in s
            /\ g.pst[pp[1]][pp[2]] = "M"
            /\ g.steps[n] = g.steps[pp[1]] + 1

TreeOKOf(g, prio, nn, allports) ==
  /\ \A n \in g.alive : NodeOK(g, prio, nn, n)
  \* every segment with a master-capable instance attached has exactly one master port
  /\ \A s \in g.segs :
       (\E p \in SegPorts(g, s) : MasterCapable(g, p[1]))
       => Cardinality({p \in SegPorts(g, s) : g.pst[p[1]][p[2]] = "M"}) = 1

=============================================================================
