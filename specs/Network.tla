------------------------------- MODULE Network -------------------------------
(***************************************************************************)
(* C01: N statime instances (each one the specification Instance, as a     *)
(* parametrised INSTANCE) on network segments. A segment is a set of ports *)
(* <<node, port>>; an Announce emitted on a port reaches every other port  *)
(* of its segment. Time is round-structured but phase-free: in every round *)
(* each node runs BMCA once and each master port announces once, in any    *)
(* interleaving; an Announce is delivered at some point of the round it    *)
(* was sent in; a port's announce receipt timer fires between T and 2T     *)
(* rounds after it was last re-armed. One fault (cut or restore a segment, *)
(* silence a node, change a node's quality) may hit a converged network.   *)
(*                                                                         *)
(* Sequence ids are taken modulo 1 and ghost bookkeeping is off, so the    *)
(* state space is finite; `stable` counts undisturbed rounds up to K.      *)
(***************************************************************************)
EXTENDS Naturals, Integers, Sequences, FiniteSets, TLC, Json, Tree

CONSTANTS N, Topo, Prio, Prio2, Class, SlaveOnly, NPorts, T, K, Faults, KeepHist, Cut0, ForceFault
\* Topo: set of segments (sets of <<node, port>>); Prio[n]: priority1; Prio2[n]: priority2; Class[n]: clockClass; NPorts[n];
\* Cut0: segments that are down when the network starts (the "restore" fault brings one back);
\* ForceFault: a converged network does not start another round before the fault has happened (simulation: every behaviour has its fault)

Nodes == 1..N
AllPorts == UNION Topo
PortsOf(n) == {p \in AllPorts : p[1] = n}
NoUtc == 99999
NetTP0 == [utc |-> NoUtc, leap |-> 0, tt |-> FALSE, ft |-> FALSE, ptp |-> FALSE, src |-> 160]
PCfgOf(n) == [i \in 1..NPorts[n] |-> [p2p |-> FALSE, mo |-> FALSE, aml |-> {0}, keep |-> 1]]

Node(n) == INSTANCE Instance WITH Own <- n, OwnP <- [p1 |-> Prio[n], p2 |-> Prio2[n]], Q0 <- [class |-> Class[n], acc |-> 254, var |-> 65535],
                                  SO0 <- SlaveOnly[n], PTrace <- FALSE, TP0 <- NetTP0, PCfg <- PCfgOf(n),
                                  SeqMod <- 1, Ghost <- FALSE, DevDup <- TRUE, Fwd <- FALSE, EmptyOnBmca <- FALSE

VARIABLES ns, net, didB, didA, rc, armed, stable, cut, silent, faulted, hist
vars == <<ns, net, didB, didA, rc, armed, stable, cut, silent, faulted, hist>>

Init == /\ ns = [n \in Nodes |-> Node(n)!Init0]
        /\ net = {}
        /\ didB = [n \in Nodes |-> FALSE]
        /\ didA = [p \in AllPorts |-> FALSE]
        /\ rc = [p \in AllPorts |-> 0]
        /\ armed = [p \in AllPorts |-> TRUE]                 \* Port::new hands out ResetAnnounceReceiptTimer
        /\ stable = 0 /\ cut = Cut0 /\ silent = {} /\ faulted = FALSE /\ hist = <<>>

SegsOf(p) == {s \in Topo : p \in s /\ s \notin cut}
Peers(p) == (UNION SegsOf(p)) \ {p}
HasRcpt(acts) == \E i \in 1..Len(acts) : acts[i].a = "T" /\ acts[i].k = "rcpt"
GmTuple(g) == <<g.p1, g.class, g.acc, g.var, g.p2, g.id>>

\* the announce timer of a master port fires: the emitted Announce goes to every other port of the segment
Announce(p) ==
  LET n == p[1]
      r == Node(n)!Step(ns[n], [e |-> "t", k |-> "ann", p |-> p[2]])
      f == r.out[2]
  IN /\ ns[n].pst[p[2]] = "M" /\ ~didA[p] /\ n \notin silent
     /\ ns' = [ns EXCEPT ![n] = r.s]
     /\ net' = net \cup {[src |-> p, dst |-> q,
                          ev |-> [e |-> "ann", p |-> q[2], src |-> p, seq |-> 0, g |-> GmTuple(f.gm), steps |-> f.steps, tp |-> f.tp]] :
                         q \in {x \in Peers(p) : x[1] \notin silent}}
     /\ didA' = [didA EXCEPT ![p] = TRUE]
     /\ hist' = (IF KeepHist THEN Append(hist, [e |-> "ann", n |-> n, p |-> p[2]]) ELSE hist)
     /\ UNCHANGED <<didB, rc, armed, stable, cut, silent, faulted>>

Deliver(m) ==
  LET q == m.dst  n == q[1]
      r == Node(n)!Step(ns[n], m.ev)
  IN /\ net' = net \ {m}
     /\ ns' = [ns EXCEPT ![n] = r.s]
     /\ rc' = IF HasRcpt(r.out) THEN [rc EXCEPT ![q] = 0] ELSE rc
     /\ armed' = IF HasRcpt(r.out) THEN [armed EXCEPT ![q] = TRUE] ELSE armed
     /\ hist' = (IF KeepHist THEN Append(hist, [e |-> "dlv", src |-> m.src, dst |-> m.dst]) ELSE hist)
     /\ UNCHANGED <<didB, didA, stable, cut, silent, faulted>>

Bmca(n) ==
  LET r == Node(n)!Step(ns[n], [e |-> "bmca"])
      re == {p \in PortsOf(n) : HasRcpt(r.pend[p[2]])}
  IN /\ ~didB[n] /\ n \notin silent
     /\ ns' = [ns EXCEPT ![n] = r.s]
     /\ rc' = [p \in AllPorts |-> IF p \in re THEN 0 ELSE rc[p]]
     /\ armed' = [p \in AllPorts |-> IF p \in re THEN TRUE ELSE armed[p]]
     /\ didB' = [didB EXCEPT ![n] = TRUE]
     /\ hist' = (IF KeepHist THEN Append(hist, [e |-> "bmca", n |-> n]) ELSE hist)
     /\ UNCHANGED <<net, didA, stable, cut, silent, faulted>>

Timeout(p) ==
  LET n == p[1]
      r == Node(n)!Step(ns[n], [e |-> "t", k |-> "rcpt", p |-> p[2]])
  IN /\ armed[p] /\ rc[p] >= T /\ n \notin silent
     /\ ns' = [ns EXCEPT ![n] = r.s]
     /\ armed' = [armed EXCEPT ![p] = HasRcpt(r.out)]
     /\ rc' = [rc EXCEPT ![p] = 0]
     /\ hist' = (IF KeepHist THEN Append(hist, [e |-> "to", n |-> n, p |-> p[2]]) ELSE hist)
     /\ UNCHANGED <<net, didB, didA, stable, cut, silent, faulted>>

EndRound ==
  /\ ~(ForceFault /\ ~faulted /\ stable >= K /\ Faults # {})
  /\ \A n \in Nodes \ silent : didB[n]
  /\ \A p \in AllPorts : (ns[p[1]].pst[p[2]] = "M" /\ p[1] \notin silent) => didA[p]
  /\ net = {}
  /\ \A p \in AllPorts : (armed[p] /\ p[1] \notin silent) => rc[p] < 2 * T
  /\ rc' = [p \in AllPorts |-> IF armed[p] /\ p[1] \notin silent THEN rc[p] + 1 ELSE rc[p]]      \* a silenced node's timers do not matter any more (and must not count for ever)
  /\ didB' = [n \in Nodes |-> FALSE] /\ didA' = [p \in AllPorts |-> FALSE]
  /\ stable' = IF stable > K THEN stable ELSE stable + 1
  /\ hist' = (IF KeepHist THEN Append(hist, [e |-> "end"]) ELSE hist)
  /\ UNCHANGED <<ns, net, armed, cut, silent, faulted>>

\* one fault, applied to a converged network
Fault ==
  /\ ~faulted /\ stable >= K /\ net = {}
  /\ faulted' = TRUE /\ stable' = 0
  /\ \/ \E s \in Topo : /\ "cut" \in Faults /\ s \notin cut /\ cut' = cut \cup {s} /\ UNCHANGED <<ns, silent>>
                        /\ hist' = (IF KeepHist THEN Append(hist, [e |-> "cut", seg |-> s]) ELSE hist)
     \/ \E s \in cut : /\ "restore" \in Faults /\ cut' = cut \ {s} /\ UNCHANGED <<ns, silent>>
                       /\ hist' = (IF KeepHist THEN Append(hist, [e |-> "restore", seg |-> s]) ELSE hist)
     \/ \E n \in Nodes : /\ "silence" \in Faults /\ silent' = silent \cup {n} /\ UNCHANGED <<ns, cut>>
                         /\ hist' = (IF KeepHist THEN Append(hist, [e |-> "silence", n |-> n]) ELSE hist)
     \/ \E n \in Nodes : /\ "quality" \in Faults /\ Class[n] = 248
                         /\ ns' = [ns EXCEPT ![n] = Node(n)!Step(ns[n], [e |-> "q", q |-> [class |-> 6, acc |-> 33, var |-> 100]]).s]
                         /\ UNCHANGED <<cut, silent>>
                         /\ hist' = (IF KeepHist THEN Append(hist, [e |-> "quality", n |-> n, q |-> [class |-> 6, acc |-> 33, var |-> 100]]) ELSE hist)
  /\ UNCHANGED <<net, didB, didA, rc, armed>>

Next == \/ \E p \in AllPorts : Announce(p) \/ Timeout(p)
        \/ \E m \in net : Deliver(m)
        \/ \E n \in Nodes : Bmca(n)
        \/ EndRound \/ Fault
Spec == Init /\ [][Next]_vars

(***************************************************************************)
(* The global view and the tree predicate (also evaluated on the logged    *)
(* states of the free-running simulator, module TraceNet).                 *)
(***************************************************************************)
ViewOfNet ==
  [pst |-> [n \in Nodes |-> ns[n].pst], ppi |-> [n \in Nodes |-> ns[n].ppi], gm |-> [n \in Nodes |-> ns[n].gm],
   steps |-> [n \in Nodes |-> ns[n].steps], so |-> [n \in Nodes |-> ns[n].so], q |-> [n \in Nodes |-> ns[n].q], p2 |-> Prio2,
   segs |-> Topo \ cut, alive |-> Nodes \ silent]

TreeOK == TreeOKOf(ViewOfNet, Prio, N, AllPorts)
Settle == stable >= K => TreeOK
NoFlap == [][(stable >= K /\ stable' >= K) => [n \in Nodes |-> ns'[n].pst] = [n \in Nodes |-> ns[n].pst]]_vars

\* edge emission for the replay on real instances
Proj == [pst |-> [n \in Nodes |-> ns[n].pst], ppi |-> [n \in Nodes |-> ns[n].ppi], gmid |-> [n \in Nodes |-> ns[n].gm[6]], gm |-> [n \in Nodes |-> ns[n].gm],
         steps |-> [n \in Nodes |-> ns[n].steps]]
ProjP == [pst |-> [n \in Nodes |-> ns'[n].pst], ppi |-> [n \in Nodes |-> ns'[n].ppi], gmid |-> [n \in Nodes |-> ns'[n].gm[6]], gm |-> [n \in Nodes |-> ns'[n].gm],
          steps |-> [n \in Nodes |-> ns'[n].steps]]
View == <<ns, net, didB, didA, rc, armed, stable, cut, silent, faulted>>
Emit == PrintT(<<"E", ToJson([hist |-> hist', exp |-> ProjP])>>)
CONSTANT Depth
Bound == Len(hist) < Depth
=============================================================================
