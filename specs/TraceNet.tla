------------------------------- MODULE TraceNet -------------------------------
(***************************************************************************)
(* Binding B for C01: the logged global states of a free-running           *)
(* simulation of N real instances (harness/src/bin/netsim.rs --free: real- *)
(* valued delays, jittered timers, BMCA phases, one fault after            *)
(* convergence). The first record carries the configuration; every "state" *)
(* record is the global view after a BMCA round. Once the network has been *)
(* quiet for K rounds the tree predicate of module Tree must hold on every *)
(* logged state and the port states must not change from one logged state  *)
(* to the next (no flapping). With Sync / Delay traffic switched on, every  *)
(* measurement a recording filter receives is logged and must be exact.    *)
(***************************************************************************)
EXTENDS Tree, Json, IOUtils, TLC

Rec == ndJsonDeserialize(IOEnv.TRACE)
Cfg == Rec[1]
NN == Cfg.n
KQ == Cfg.k
Range(f) == {f[i] : i \in DOMAIN f}
Pair(p) == <<p[1], p[2]>>
SegSet(segs) == {{Pair(p) : p \in Range(s)} : s \in Range(segs)}
AllP == UNION SegSet(Cfg.topo)
\* the global view of a record, in the shape Tree expects
G(r) == [pst |-> r.pst, ppi |-> [n \in 1..NN |-> Pair(r.ppi[n])], gm |-> [n \in 1..NN |-> <<r.gm[n][1], r.gm[n][2], r.gm[n][3], r.gm[n][4], r.gm[n][5], r.gm[n][6]>>],
         steps |-> r.steps, so |-> r.so, q |-> r.q, p2 |-> Cfg.prio2, segs |-> SegSet(r.segs), alive |-> Range(r.alive)]

VARIABLES l, prev
tvars == <<l, prev>>
TInit == l = 2 /\ prev = <<>>
IsState(r) == r.e = "state"
\* Sync / Delay traffic between the real instances (netsim cfg "sync"): node n's clock is off by Cfg.theta[n] ns, segment i has the
\* symmetric delay Cfg.dseg[i] ns. A measurement reaches a filter only on a slave port, and what the real master and the real
\* slave code make of the exchanged frames is exactly offset = theta(slave) - theta(parent), delay = the segment's delay.
MeasOK(r) == /\ r.pst = "S"
             /\ r.parent[1] \in 1..NN /\ r.parent[1] # r.n
             /\ (r.has_off => (r.off_exact /\ r.off = Cfg.theta[r.n] - Cfg.theta[r.parent[1]]))
             /\ (r.has_dly => (r.dly_exact /\ r.dly = Cfg.dseg[r.seg]))
TStep == /\ l <= Len(Rec)
         /\ LET r == Rec[l] IN
            IF r.e = "meas" THEN MeasOK(r) /\ prev' = prev
            ELSE IF IsState(r) THEN
               /\ (r.quiet >= KQ => TreeOKOf(G(r), Cfg.prio, NN, AllP))
               /\ ((r.quiet > KQ /\ prev # <<>>) => r.pst = prev)           \* the steady state does not flap
               /\ prev' = r.pst
            ELSE prev' = <<>>                                                \* a fault: start over
         /\ l' = l + 1
TSpec == TInit /\ [][TStep]_tvars
Accepted == IF TLCGet("stats").diameter = Len(Rec) THEN TRUE
            ELSE Print(<<"REJECTED at line", TLCGet("stats").diameter + 1, Rec[TLCGet("stats").diameter + 1]>>, FALSE)
=============================================================================
