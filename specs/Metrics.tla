------------------------------- MODULE Metrics -------------------------------
(***************************************************************************)
(* C19: what the metrics endpoint must show for an abstract instance       *)
(* state, with the meaning each metric's own help text states              *)
(* (statime-linux/src/metrics/format.rs): booleans true = 1, port state    *)
(* as the IEEE 1588 portState enumeration value, path trace entries        *)
(* numbered from the grandmaster with the local clock last.                *)
(***************************************************************************)
EXTENDS Instance

PortStateCode(x) == CASE x = "F" -> 2 [] x = "L" -> 4 [] x = "M" -> 6 [] x = "P" -> 7 [] x = "S" -> 9   \* Table 20
Bool(b) == IF b THEN 1 ELSE 0

MetricsOf(s) ==
  [statime_number_ports |-> NP,
   statime_quality_class |-> s.q.class, statime_quality_accuracy |-> s.q.acc, statime_quality_offset_scaled_log_variance |-> s.q.var,
   statime_priority_1 |-> OwnP.p1, statime_priority_2 |-> OwnP.p2,
   statime_steps_removed |-> s.steps,
   parent |-> s.ppi,
   statime_grandmaster_clock_quality_class |-> s.gm[2], statime_grandmaster_clock_quality_accuracy |-> s.gm[3],
   statime_grandmaster_clock_quality_offset_scaled_log_variance |-> s.gm[4],
   statime_grandmaster_priority_1 |-> s.gm[1], statime_grandmaster_priority_2 |-> s.gm[5],
   statime_current_utc_offset_seconds |-> s.tp.utc,                      \* absent when NoUtc
   statime_upcoming_leap_seconds |-> IF s.tp.leap = 0 THEN 60 ELSE s.tp.leap,
   statime_time_traceable |-> Bool(s.tp.tt), statime_frequency_traceable |-> Bool(s.tp.ft), statime_ptp_timescale |-> Bool(s.tp.ptp),
   statime_time_source |-> s.tp.src,
   statime_path_trace_enable |-> Bool(PTrace),
   path |-> s.path,
   statime_port_state |-> [p \in Ports |-> PortStateCode(s.pst[p])],
   p2p |-> [p \in Ports |-> PCfg[p].p2p],
   \* whether the port has measured a (peer / mean) delay: states that differ only in this are different as far as the metrics go
   has_md |-> [p \in Ports |-> ~IsNoneV(s.md[p])],
   has_slave |-> \E p \in Ports : s.pst[p] = "S"]
=============================================================================
