------------------------------ MODULE MCMetrics ------------------------------
(* C19: the states of the MCPort explorations, each with the metrics it must show *)
EXTENDS MCPort, Metrics
EmitMetrics == Norm /\ PrintT(<<"E", ToJson([hist |-> hist', exp |-> MetricsOf(st')])>>)
=============================================================================
