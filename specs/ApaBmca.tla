------------------------------- MODULE ApaBmca -------------------------------
(***************************************************************************)
(* The laws of the data set comparison (module BmcaCompare, the very text   *)
(* the instance specification evaluates) discharged by Apalache for ALL    *)
(* integer attribute values, not only the finite domain TLC enumerates in  *)
(* MCBmcaLaws.                                                             *)
(*                                                                         *)
(*   apalache-mc check --init=Init --next=Next --inv=Laws --length=0 ApaBmca.tla *)
(***************************************************************************)
EXTENDS BmcaCompare, Apalache

VARIABLES
  \* @type: $ds;
  a,
  \* @type: $ds;
  b,
  \* @type: $ds;
  c

\* @type: $ds => Bool;
WellFormed(x) == Len(x.gm) = 6 /\ Len(x.rcv) = 2

Init == /\ a = Gen(6) /\ b = Gen(6) /\ c = Gen(6)
        /\ WellFormed(a) /\ WellFormed(b) /\ WellFormed(c)
Next == UNCHANGED <<a, b, c>>

\* the laws, for arbitrary integers in every attribute
Antisymmetric == Compare(a, b) = Flip(Compare(b, a))
DifferentGmStrict == a.gm[6] # b.gm[6] => (Compare(a, b) \in {"B", "W"} /\ (Compare(a, b) = "B" <=> GmLess(a.gm, b.gm)))
TiesAreErrors == Rank(Compare(a, b)) = 0 =>
                   (a.gm[6] = b.gm[6] /\ ((a.steps = b.steps /\ a.snd = b.snd /\ a.rcv[2] = b.rcv[2]) \/ Compare(a, b) = "E1"))
\* "better" is transitive when the grandmasters are pairwise different (then Figure 34 alone decides: a lexicographic order)
BetterTransitiveGm == (a.gm[6] # b.gm[6] /\ b.gm[6] # c.gm[6] /\ a.gm[6] # c.gm[6] /\ Compare(a, b) = "B" /\ Compare(b, c) = "B") => Compare(a, c) = "B"
\* the grandmaster identity determines the grandmaster attributes (one clock, one data set): under that premise "better" is transitive outright
\* @type: ($ds, $ds) => Bool;
SameGmSameAttr(x, y) == x.gm[6] = y.gm[6] => x.gm = y.gm
BetterTransitive == (SameGmSameAttr(a, b) /\ SameGmSameAttr(b, c) /\ SameGmSameAttr(a, c) /\ a.steps >= 0 /\ b.steps >= 0 /\ c.steps >= 0
                     /\ Compare(a, b) = "B" /\ Compare(b, c) = "B") => Compare(a, c) = "B"
Laws == Antisymmetric /\ DifferentGmStrict /\ TiesAreErrors /\ BetterTransitiveGm /\ BetterTransitive
=============================================================================
