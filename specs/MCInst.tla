------------------------------- MODULE MCInst -------------------------------
(* Two-port E2E boundary clock; a better (2) and a worse (9) foreign master; *)
(* full host alphabet at small depth. Conformance core for C05 C06 C08 C11.  *)
EXTENDS Instance, Json

CONSTANTS Depth, WithQ
VARIABLES st, env, res, hist
vars == <<st, env, res, hist>>

MC_Own == 5
MC_OwnP == [p1 |-> 128, p2 |-> 128]
MC_Q0 == [class |-> 248, acc |-> 254, var |-> 65535]
MC_TP0 == [utc |-> NoUtc, leap |-> 0, tt |-> FALSE, ft |-> FALSE, ptp |-> FALSE, src |-> 160]
E2E(mo, aml) == [p2p |-> FALSE, mo |-> mo, aml |-> aml, keep |-> 1]
P2P(mo, aml) == [p2p |-> TRUE, mo |-> mo, aml |-> aml, keep |-> 1]
PCfg_A == << E2E(FALSE, AnyId), E2E(FALSE, AnyId) >>           \* plain boundary clock
PCfg_B == << E2E(FALSE, AnyId), E2E(TRUE, AnyId) >>            \* port 2 master-only
PCfg_C == << E2E(FALSE, {2}), E2E(FALSE, AnyId) >>             \* port 1 accepts only master 2
PCfg_D == << E2E(FALSE, AnyId), P2P(FALSE, AnyId), E2E(TRUE, AnyId) >>   \* three ports, one P2P, one master-only
PCfg_E == << E2E(FALSE, AnyId) >>                              \* ordinary clock

Masters == {2, 9}
GmOf(m) == IF m = 2 THEN <<127, 248, 254, 65535, 128, 2>> ELSE <<128, 248, 254, 65535, 128, 9>>
TpOf(m) == IF m = 2 THEN [utc |-> 37, leap |-> 61, tt |-> TRUE, ft |-> TRUE, ptp |-> TRUE, src |-> 32]
           ELSE [utc |-> NoUtc, leap |-> 0, tt |-> FALSE, ft |-> FALSE, ptp |-> TRUE, src |-> 160]
Start(m) == IF m = 2 THEN 65534 ELSE 0

Init == /\ st = Init0
        /\ env = [mseq |-> [m \in Masters |-> Start(m)], sent |-> [m \in Masters |-> FALSE]]
        /\ res = [out |-> <<>>]
        /\ hist = <<>>

AnnEv(p, m, kind) ==
  LET cur == env.mseq[m]
      seq == CASE kind = "next" -> cur
               [] kind = "dup" -> (cur + 65535) % SeqMod
               [] kind = "stale" -> (cur + 65534) % SeqMod
               [] kind = "skip" -> (cur + 1) % SeqMod
  IN [e |-> "ann", p |-> p, src |-> <<m, 1>>, seq |-> seq, g |-> GmOf(m), steps |-> 0, tp |-> TpOf(m)]

Events ==
  {AnnEv(p, m, "next") : p \in Ports, m \in Masters}
  \cup {AnnEv(p, m, k) : p \in Ports, m \in {x \in Masters : env.sent[x]}, k \in {"dup", "stale", "skip"}}
  \cup {[e |-> "bmca"]}
  \cup {[e |-> "t", k |-> k, p |-> p] : k \in {"ann", "sync", "dreq", "rcpt"}, p \in Ports}
  \cup {[e |-> "so", v |-> v] : v \in BOOLEAN}
  \cup (IF WithQ THEN {[e |-> "q", q |-> [class |-> c, acc |-> 254, var |-> 65535]] : c \in {6, 248}} ELSE {})

EnvStep(ev) ==
  IF ev.e = "ann" THEN
     LET m == ev.src[1]
         cur == env.mseq[m]
         nxt == IF ev.seq = cur THEN (cur + 1) % SeqMod ELSE IF ev.seq = (cur + 1) % SeqMod THEN (cur + 2) % SeqMod ELSE cur
     IN [env EXCEPT !.mseq[m] = nxt, !.sent[m] = TRUE]
  ELSE env

Next == \E ev \in Events :
          LET r == Step(st, ev) IN
          /\ st' = r.s
          /\ res' = [x \in (DOMAIN r) \ {"s", "dec"} |-> r[x]]
          /\ env' = EnvStep(ev)
          /\ hist' = Append(hist, ev)

Spec == Init /\ [][Next]_vars

View == <<ViewOf(st), env>>
Bound == Len(hist) < Depth
\* plain TLC runs (no edge emission): force TLC to normalise lazily evaluated values before a state is queued
Norm == ToJson(st') # "" /\ ToJson(res') # ""
Emit == PrintT(<<"E", ToJson([hist |-> hist', exp |-> Proj(st') @@ res'])>>)

\* ---------------------------------------------------------------- C08 on the model
OneSlave == Cardinality({p \in Ports : st.pst[p] = "S"}) <= 1
MasterOnlyNeverSlave == \A p \in Ports : PCfg[p].mo => st.pst[p] # "S"
\* slave-only from the start and never switched off: no master port ever
SlaveOnlyInit == (SO0 /\ \A i \in 1..Len(hist) : hist[i].e # "so") => \A p \in Ports : st.pst[p] # "M"
\* after slave-only was switched on, a completed BMCA leaves no master port
SlaveOnlyLate == (Len(hist) > 0 /\ hist[Len(hist)].e = "bmca" /\ st.so) => \A p \in Ports : st.pst[p] # "M"
Frames(r) == IF "out" \in DOMAIN r THEN {<<Fld(r.out[i], "src", NoPid)[2], r.out[i]>> : i \in {j \in 1..Len(r.out) : r.out[j].a \in {"E", "G"}}}
             ELSE {}
EmitOK == \A f \in Frames(res') :
            /\ f[2].t \in {"Announce", "Sync", "FollowUp", "DelayResp"} => st.pst[f[1]] = "M"
            /\ f[2].t = "DelayReq" => st.pst[f[1]] = "S"
Emitters == [][EmitOK]_vars
ClockOK == \A i \in 1..Len(res'.clk) :
             LET c == res'.clk[i] IN
             c[2] = "freq" => IF c[3] = 0 THEN (st.pst[c[1]] \in {"S", "F"} \/ st'.pst[c[1]] = "F") ELSE st.pst[c[1]] = "S"
ClockOwner == [][ClockOK]_vars
=============================================================================
