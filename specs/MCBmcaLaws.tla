----------------------------- MODULE MCBmcaLaws -----------------------------
(* Laws of the data set comparison the properties rely on, evaluated by TLC  *)
(* over a finite domain (no behaviour: the ASSUMEs are the checks).          *)
EXTENDS Bmca, TLC

Gms == {<<127, 248, 254, 65535, 128, 2>>, <<128, 248, 254, 65535, 128, 1>>, <<128, 6, 254, 65535, 128, 8>>, <<128, 248, 254, 65535, 128, 9>>}
Own == 5
\* data sets as received by the ports of clock 5 from senders 3, 7 (and, for error-1, 5 itself)
DS == [gm : Gms, steps : 0..3, snd : {3, 7}, rcv : {<<Own, 1>>, <<Own, 2>>}]

\* comparison is antisymmetric
ASSUME Antisymmetric == \A a, b \in DS : Compare(a, b) = Flip(Compare(b, a))
\* different grandmasters are always strictly ordered, by Figure 34 alone
ASSUME DifferentGmStrict == \A a, b \in DS : a.gm[6] # b.gm[6] => Compare(a, b) \in {"B", "W"} /\ (Compare(a, b) = "B" <=> GmLess(a.gm, b.gm))
\* ties are exactly the error cases: same grandmaster, and either the same sender and receiving port
\* (error-2) or a one-step difference with receiver = sender (error-1)
ASSUME TiesAreErrors == \A a, b \in DS : Rank(Compare(a, b)) = 0 =>
           a.gm[6] = b.gm[6] /\ ((a.steps = b.steps /\ a.snd = b.snd /\ a.rcv[2] = b.rcv[2]) \/ FALSE)
\* "better" (not merely by topology) is transitive, so the best master is well defined
ASSUME BetterTransitive == \A a, b, c \in DS : Compare(a, b) = "B" /\ Compare(b, c) = "B" => Compare(a, c) = "B"
\* preference (better or better by topology) has no 3-cycles among data sets that are not error-1 related
NoErr(a, b) == Compare(a, b) \notin {"E1"}
ASSUME NoCycle == \A a, b, c \in DS : (NoErr(a, b) /\ NoErr(b, c) /\ NoErr(a, c) /\ Rank(Compare(a, b)) = 1 /\ Rank(Compare(b, c)) = 1) => Rank(Compare(c, a)) # 1
\* the local clock's data set D0 is comparable with everything it can receive
ASSUME D0Total == \A b \in DS : b.snd # Own => Rank(Compare(D0(<<128, 248, 254, 65535, 128, Own>>, Own), b)) \in {1, 2}
=============================================================================
