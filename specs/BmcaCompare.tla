---------------------------- MODULE BmcaCompare ----------------------------
(***************************************************************************)
(* IEEE 1588-2019 data set comparison (Figures 34 and 35), written from    *)
(* the standard, not from the code. Kept in a module of its own, with      *)
(* Apalache type annotations (comments to TLC), so that the one text is    *)
(* both what TLC evaluates inside the instance specification and what      *)
(* Apalache proves the laws of for all integer values (apalache/ApaBmca).  *)
(*                                                                         *)
(* A comparison data set is a record                                       *)
(*   [gm: <<p1, class, acc, var, p2, id>>, steps, snd, rcv: <<clk, port>>] *)
(***************************************************************************)
EXTENDS Naturals, Integers, Sequences, FiniteSets

\* @typeAlias: ds = { gm: Seq(Int), steps: Int, snd: Int, rcv: Seq(Int) };
BmcaCompare_aliases == TRUE

\* lexicographic "<" on the six grandmaster attributes (Figure 34)
\* @type: (Seq(Int), Seq(Int)) => Bool;
GmLess(a, b) == \E i \in 1..6 : a[i] < b[i] /\ \A j \in 1..6 : j < i => a[j] = b[j]

\* Figure 34 / 35.  Result: "B" better, "BT" better by topology, "E1", "E2"
\* error-1 / error-2, "WT" worse by topology, "W" worse  (of a relative to b)
\* @type: ($ds, $ds) => Str;
Compare(a, b) ==
  IF a.gm[6] # b.gm[6] THEN (IF GmLess(a.gm, b.gm) THEN "B" ELSE "W")
  ELSE IF a.steps > b.steps + 1 THEN "W"
  ELSE IF a.steps + 1 < b.steps THEN "B"
  ELSE IF a.steps > b.steps THEN
       (IF a.rcv[1] < a.snd THEN "W" ELSE IF a.rcv[1] = a.snd THEN "E1" ELSE "WT")
  ELSE IF a.steps < b.steps THEN
       (IF b.rcv[1] < b.snd THEN "B" ELSE IF b.rcv[1] = b.snd THEN "E1" ELSE "BT")
  ELSE IF a.snd < b.snd THEN "BT"
  ELSE IF a.snd > b.snd THEN "WT"
  ELSE IF a.rcv[2] < b.rcv[2] THEN "BT"
  ELSE IF a.rcv[2] > b.rcv[2] THEN "WT" ELSE "E2"

\* 1: a preferred, 0: tie (error cases), 2: b preferred
\* @type: Str => Int;
Rank(c) == IF c \in {"B", "BT"} THEN 1 ELSE IF c \in {"E1", "E2"} THEN 0 ELSE 2

\* @type: Str => Str;
Flip(c) == IF c = "B" THEN "W" ELSE IF c = "W" THEN "B" ELSE IF c = "BT" THEN "WT" ELSE IF c = "WT" THEN "BT" ELSE c
=============================================================================
