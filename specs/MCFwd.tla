-------------------------------- MODULE MCFwd --------------------------------
(***************************************************************************)
(* C15: a boundary clock whose port 1 is slave of the parent (2) and whose *)
(* other ports are masters fed by the daemon's TLV forwarder               *)
(* (statime-linux/src/tlvforwarder.rs, the real one in the replay).        *)
(* Announces from the parent and from another acceptable master (9) carry  *)
(* TLV lists whose wire sizes sit around the room of an Announce; every    *)
(* received TLV instance gets a fresh tag so that order and multiplicity    *)
(* can be stated.                                                          *)
(***************************************************************************)
EXTENDS Instance, Json

CONSTANTS Depth, ListSet, PathSet, WithOther
VARIABLES st, env, res, hist
vars == <<st, env, res, hist>>

MC_Own == 5
MC_OwnP == [p1 |-> 128, p2 |-> 128]
MC_Q0 == [class |-> 248, acc |-> 254, var |-> 65535]
MC_TP0 == [utc |-> NoUtc, leap |-> 0, tt |-> FALSE, ft |-> FALSE, ptp |-> FALSE, src |-> 160]
E2E(mo, aml) == [p2p |-> FALSE, mo |-> mo, aml |-> aml, keep |-> 1]
PCfg_2 == << E2E(FALSE, AnyId), E2E(FALSE, AnyId) >>
PCfg_3 == << E2E(FALSE, AnyId), E2E(FALSE, AnyId), E2E(TRUE, AnyId) >>

Parent == <<2, 1>>
Other == <<9, 1>>
ParentSibling == <<Parent[1], 2>>    \* another port of the parent's clock: its TLVs are not the parent's
GmP == <<120, 6, 33, 100, 127, 1>>
GmO == <<128, 248, 254, 65535, 128, 9>>
TpP == [utc |-> 37, leap |-> 0, tt |-> TRUE, ft |-> TRUE, ptp |-> TRUE, src |-> 32]
Room0 == MaxDataLen - AnnounceSize

\* path trace lists the parent may send (k = 0: no PATH_TRACE TLV)
PathOf(k) == CASE k = 1 -> <<1, 2>>                  \* grandmaster 1 relayed by the parent
               [] k = 2 -> <<1, 5, 2>>               \* contains the own identity: clock loop
               [] k = 3 -> [i \in 1..118 |-> IF i = 118 THEN 2 ELSE 10 + i]   \* with the own identity: 119 entries, the largest TLV that fits
               [] k = 4 -> [i \in 1..119 |-> IF i = 119 THEN 2 ELSE 10 + i]   \* with the own identity: 120 entries, does not fit an Announce
               [] k = 5 -> [i \in 1..129 |-> IF i = 129 THEN 2 ELSE 10 + i]   \* longer than the data set can hold (128)
               [] k = 6 -> [i \in 1..130 |-> IF i = 130 THEN 5 ELSE IF i = 129 THEN 2 ELSE 10 + i]   \* 130 entries, the own identity last (beyond what the data set holds): a clock loop all the same
               [] OTHER -> <<>>

\* room left for forwarded TLVs after the own PATH_TRACE TLV (path as currently held in the data set)
RoomNow == IF PTrace /\ Len(st.path) < 128 /\ Room0 > 4 + 8 * (Len(st.path) + 1) THEN Room0 - (4 + 8 * (Len(st.path) + 1)) ELSE Room0

\* TLV list templates: sequences of [ty, len]; sizes are chosen relative to the room an Announce has right now
Tmpl(k) ==
  CASE k = 1 -> <<[ty |-> 16384, len |-> 2]>>                                  \* small propagating TLV
    [] k = 2 -> <<[ty |-> 16384, len |-> 0]>>                                  \* empty value (wire size 4)
    [] k = 3 -> <<[ty |-> 16384, len |-> RoomNow - 4]>>                        \* exactly the room
    [] k = 4 -> <<[ty |-> 16384, len |-> RoomNow - 6]>>                        \* two octets below the room
    [] k = 5 -> <<[ty |-> 16384, len |-> RoomNow - 2]>>                        \* two octets above the room
    [] k = 6 -> <<[ty |-> 3, len |-> 2], [ty |-> 16385, len |-> 4]>>           \* a non-propagating TLV, then a propagating one
    [] k = 7 -> <<[ty |-> 32767, len |-> 0], [ty |-> 32768, len |-> 2]>>       \* empty propagating, then non-propagating
    [] k = 8 -> <<[ty |-> 16384, len |-> 2], [ty |-> 9, len |-> 0]>>           \* propagating, then an empty one last
    [] k = 9 -> <<[ty |-> 9, len |-> 6], [ty |-> 8192, len |-> 2]>>            \* ALTERNATE_TIME_OFFSET_INDICATOR, legacy (not propagating)
    [] k = 10 -> <<[ty |-> 16384, len |-> Room0]>>                             \* larger than any Announce can take
    [] k = 11 -> <<[ty |-> 16384, len |-> 400], [ty |-> 16384, len |-> 400], [ty |-> 16384, len |-> 400]>>   \* three that do not fit together
    [] OTHER -> <<>>

\* a TLV with an empty value cannot carry a tag (tag 0); the others are numbered in arrival order
Tagged(tl, first) == [i \in 1..Len(tl) |-> [ty |-> tl[i].ty, len |-> tl[i].len, tag |-> IF tl[i].len = 0 THEN 0 ELSE first + i - 1]]

AnnEv(src, g, seq, k, pk, first) ==
  LET base == [e |-> "ann", p |-> 1, src |-> src, seq |-> seq, g |-> g, steps |-> 1, tp |-> TpP, tlvs |-> Tagged(Tmpl(k), first)]
  IN IF pk = 0 THEN base ELSE base @@ [path |-> PathOf(pk)]

Prefix == <<AnnEv(Parent, GmP, 100, 0, IF PTrace THEN 1 ELSE 0, 0), AnnEv(Parent, GmP, 101, 0, IF PTrace THEN 1 ELSE 0, 0), [e |-> "bmca"]>>
          \o [i \in 1..(NP - 1) |-> [e |-> "t", k |-> "rcpt", p |-> i + 1]]

RECURSIVE RunPrefix(_, _, _)
RunPrefix(s, sc, i) == IF i > Len(sc) THEN s ELSE RunPrefix(Step(s, sc[i]).s, sc, i + 1)

Init == /\ st = RunPrefix(Init0, Prefix, 1)
        /\ env = [aseq |-> 102, oseq |-> 0, tag |-> 1,
                  recv |-> <<>>,                               \* ghost: [tlv, snd] of every propagating TLV of an accepted Announce, in arrival order
                  sent |-> [p \in Ports |-> <<>>]]             \* ghost: tags of the forwarded TLVs each port emitted, in order
        /\ res = [out |-> <<>>]
        /\ hist = Prefix

Events ==
  (IF env.tag < 28 THEN {AnnEv(Parent, GmP, env.aseq, k, pk, env.tag) : k \in ListSet, pk \in PathSet} ELSE {})
  \cup (IF WithOther /\ env.tag < 28 THEN {AnnEv(Other, GmO, env.oseq, k, 0, env.tag) : k \in ListSet \cap {1, 3, 6}} ELSE {})
  \cup (IF WithOther /\ env.tag < 28 THEN {AnnEv(ParentSibling, GmP, env.oseq, k, 0, env.tag) : k \in ListSet \cap {1}} ELSE {})
  \cup {[e |-> "t", k |-> "ann", p |-> p] : p \in Ports}
  \cup {[e |-> "bmca"]}

EmittedTlvs(r) == IF "out" \in DOMAIN r /\ Len(r.out) = 2 /\ r.out[2].a = "G" THEN r.out[2].tlvs ELSE <<>>
Forwarded(tl) == SelectSeq(tl, LAMBDA t : ~("path" \in DOMAIN t))
EnvStep(ev, r) ==
  IF ev.e = "ann" THEN
     LET accepted == r.out # <<>>
         n == Len(ev.tlvs)
     IN [env EXCEPT !.aseq = IF ev.src = Parent THEN (@ + 1) % SeqMod ELSE @,
                    !.oseq = IF ev.src \in {Other, ParentSibling} THEN (@ + 1) % SeqMod ELSE @,
                    !.tag = @ + n,
                    !.recv = IF accepted THEN @ \o [i \in 1..Len(SelectSeq(ev.tlvs, LAMBDA t : Propagates(t.ty))) |->
                                                      [tlv |-> SelectSeq(ev.tlvs, LAMBDA t : Propagates(t.ty))[i], snd |-> ev.src]] ELSE @]
  ELSE IF ev.e = "t" THEN
     [env EXCEPT !.sent[ev.p] = @ \o [i \in 1..Len(Forwarded(EmittedTlvs(r))) |-> Forwarded(EmittedTlvs(r))[i].tag]]
  ELSE env

Next == \E ev \in Events :
          LET r == Step(st, ev) IN
          /\ st' = r.s
          /\ res' = [x \in (DOMAIN r) \ {"s", "dec"} |-> r[x]]
          /\ env' = EnvStep(ev, r)
          /\ hist' = Append(hist, ev)
Spec == Init /\ [][Next]_vars
View == <<ViewOf(st), env>>
Bound == Len(hist) < Depth + Len(Prefix)
Norm == ToJson(st') # "" /\ ToJson(res') # ""
Emit == PrintT(<<"E", ToJson([hist |-> hist', exp |-> Proj(st') @@ res'])>>)

(***************************************************************************)
(* C15 on the model                                                        *)
(***************************************************************************)
RECURSIVE Sum(_, _)
Sum(tl, i) == IF i > Len(tl) THEN 0 ELSE TlvSize(tl[i]) + Sum(tl, i + 1)
Ann(r) == r.out[2]
IsAnn(r) == "out" \in DOMAIN r /\ Len(r.out) = 2 /\ r.out[2].a = "G" /\ r.out[2].t = "Announce"
\* forwarding never makes a frame exceed the maximum size
Fits == IsAnn(res) => AnnounceSize + Sum(Ann(res).tlvs, 1) <= MaxDataLen
\* an announce timer on a master port always produces an Announce
AlwaysSentOK == LET ev == hist'[Len(hist')] IN (ev.e = "t" /\ ev.k = "ann" /\ st.pst[ev.p] = "M") => IsAnn(res')
AlwaysSent == [][AlwaysSentOK]_vars
\* only propagating TLVs received from the port that is the parent when the Announce is sent are forwarded, unmodified
\* (the code decides "from the current parent" when it sends: a TLV heard from a master that became the parent since is sent)
OnlyParentPropagating ==
  IsAnn(res) => \A i \in 1..Len(Forwarded(Ann(res).tlvs)) :
                  LET t == Forwarded(Ann(res).tlvs)[i] IN
                  /\ Propagates(t.ty)
                  /\ \E j \in 1..Len(env.recv) : env.recv[j].tlv = t /\ env.recv[j].snd = st.ppi
\* per port: in arrival order, each at most once (tags are handed out in arrival order, modulo 32)
Tags(p) == SelectSeq(env.sent[p], LAMBDA t : t # 0)
OrderOnce == \A p \in Ports : \A i, j \in 1..Len(Tags(p)) : i < j => Tags(p)[i] < Tags(p)[j]
\* the next Announce with room takes it: after an Announce was sent, the head of the port's queue did not fit in what was left
HeadDoesNotFitOK ==
  LET ev == hist'[Len(hist')] IN
  (ev.e = "t" /\ ev.k = "ann" /\ IsAnn(res') /\ ~FqEmpty(st'.fq[ev.p])) =>
     TlvSize(FqHead(st'.fq[ev.p]).tlv) > MaxDataLen - AnnounceSize - Sum(Ann(res').tlvs, 1)
NextWithRoom == [][HeadDoesNotFitOK]_vars
\* nothing that could ever be sent blocks the queue: the head fits an otherwise empty Announce. Violated only by the
\* recorded finding (a TLV larger than any Announce stays at the head of the queue for ever)
NoBlockedQueue == \A p \in Ports : (st.pst[p] = "M" /\ ~FqEmpty(st.fq[p])) => TlvSize(FqHead(st.fq[p]).tlv) <= Room0
\* path trace: emitted path = path of the data set + own identity; the data set holds the path last received from the parent
PathOK == (PTrace /\ IsAnn(res) /\ Len(st.path) < 128 /\ Room0 > 4 + 8 * (Len(st.path) + 1)) =>
            \E i \in 1..Len(Ann(res).tlvs) : "path" \in DOMAIN Ann(res).tlvs[i] /\ Ann(res).tlvs[i].path = Append(st.path, Own)
NoLoopAccepted == \A i \in 1..Len(st.path) : st.path[i] # Own
=============================================================================
