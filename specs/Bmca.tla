------------------------------- MODULE Bmca -------------------------------
(***************************************************************************)
(* IEEE 1588-2019 data set comparison (Figures 34 and 35) and state        *)
(* decision (Figure 33), written from the standard, not from the code.     *)
(*                                                                         *)
(* A comparison data set is a record                                       *)
(*   [gm: <<p1, class, acc, var, p2, id>>, steps, snd, rcv: <<clk, port>>] *)
(* gm    grandmaster attributes in the order Figure 34 examines them       *)
(* steps stepsRemoved                                                      *)
(* snd   clock identity of the sender of the Announce                      *)
(* rcv   identity of the receiving port                                    *)
(***************************************************************************)
EXTENDS BmcaCompare     \* GmLess, Compare, Rank, Flip (Figures 34 / 35)

\* Data set of the local clock (D0 of Figure 33)
D0(ownAttr, own) == [gm |-> ownAttr, steps |-> 0, snd |-> own, rcv |-> <<own, 0>>]

(***************************************************************************)
(* State decision, Figure 33, for one port.                                *)
(*   d0      data set of the local clock                                   *)
(*   class   clockClass of the local clock                                 *)
(*   ebest   best data set over all ports, or NoDs                         *)
(*   erbest  best data set of this port, or NoDs                           *)
(*   same    TRUE iff ebest was received on this port (Ebest = Erbest)     *)
(*   listening  the port is in the LISTENING state                         *)
(* Deviation documented by statime (and IEEE 1588-2008): a listening port  *)
(* without a qualified Announce keeps listening ("none").                  *)
(***************************************************************************)
NoDs == [none |-> TRUE]
IsNone(d) == "none" \in DOMAIN d

Decision(d0, class, ebest, erbest, same, listening) ==
  IF IsNone(erbest) /\ listening THEN "none"
  ELSE IF class >= 1 /\ class <= 127 THEN
       (IF IsNone(erbest) \/ Rank(Compare(d0, erbest)) \in {0, 1} THEN "M1" ELSE "P1")
  ELSE IF IsNone(ebest) \/ Rank(Compare(d0, ebest)) \in {0, 1} THEN "M2"
  ELSE IF IsNone(erbest) THEN "M3"
  ELSE IF same THEN "S1"
  ELSE IF Compare(ebest, erbest) = "BT" THEN "P2" ELSE "M3"

(***************************************************************************)
(* Laws the properties rely on (checked by TLC on a finite domain, see     *)
(* MCBmcaLaws): Compare is antisymmetric, its strict part is transitive    *)
(* except through the error cases, and ties arise only as E1/E2.           *)
(***************************************************************************)
=============================================================================
