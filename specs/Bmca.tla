------------------------------- MODULE Bmca -------------------------------
(***************************************************************************)
(* IEEE 1588-2019 data set comparison (Figures 34 and 35) and state        *)
(* decision (Figure 33), written from the standard, not from the code.     *)
(*                                                                         *)
(* A comparison data set is a record                                       *)
(*   [gm: <<p1, class, acc, var, p2, id>>, steps, snd, rcv: <<clk, port>>] *)
(* gm    grandmaster attributes in the order Figure 34 examines them       *)
(* steps stepsRemoved                                                      *)
(* snd   clock identity of the sender of the Announce                      *)
(* rcv   identity of the receiving port                                    *)
(***************************************************************************)
EXTENDS Naturals, Integers, Sequences, FiniteSets

\* lexicographic "<" on the six grandmaster attributes (Figure 34)
GmLess(a, b) == \E i \in 1..6 : a[i] < b[i] /\ \A j \in 1..(i - 1) : a[j] = b[j]

\* Figure 34 / 35.  Result: "B" better, "BT" better by topology, "E1", "E2"
\* error-1 / error-2, "WT" worse by topology, "W" worse  (of a relative to b)
Compare(a, b) ==
  IF a.gm[6] # b.gm[6] THEN (IF GmLess(a.gm, b.gm) THEN "B" ELSE "W")
  ELSE IF a.steps > b.steps + 1 THEN "W"
  ELSE IF a.steps + 1 < b.steps THEN "B"
  ELSE IF a.steps > b.steps THEN
       (IF a.rcv[1] < a.snd THEN "W" ELSE IF a.rcv[1] = a.snd THEN "E1" ELSE "WT")
  ELSE IF a.steps < b.steps THEN
       (IF b.rcv[1] < b.snd THEN "B" ELSE IF b.rcv[1] = b.snd THEN "E1" ELSE "BT")
  ELSE IF a.snd < b.snd THEN "BT"
  ELSE IF a.snd > b.snd THEN "WT"
  ELSE IF a.rcv[2] < b.rcv[2] THEN "BT"
  ELSE IF a.rcv[2] > b.rcv[2] THEN "WT" ELSE "E2"

\* 1: a preferred, 0: tie (error cases), 2: b preferred
Rank(c) == IF c \in {"B", "BT"} THEN 1 ELSE IF c \in {"E1", "E2"} THEN 0 ELSE 2

\* Data set of the local clock (D0 of Figure 33)
D0(ownAttr, own) == [gm |-> ownAttr, steps |-> 0, snd |-> own, rcv |-> <<own, 0>>]

(***************************************************************************)
(* State decision, Figure 33, for one port.                                *)
(*   d0      data set of the local clock                                   *)
(*   class   clockClass of the local clock                                 *)
(*   ebest   best data set over all ports, or NoDs                         *)
(*   erbest  best data set of this port, or NoDs                           *)
(*   same    TRUE iff ebest was received on this port (Ebest = Erbest)     *)
(*   listening  the port is in the LISTENING state                         *)
(* Deviation documented by statime (and IEEE 1588-2008): a listening port  *)
(* without a qualified Announce keeps listening ("none").                  *)
(***************************************************************************)
NoDs == [none |-> TRUE]
IsNone(d) == "none" \in DOMAIN d

Decision(d0, class, ebest, erbest, same, listening) ==
  IF IsNone(erbest) /\ listening THEN "none"
  ELSE IF class >= 1 /\ class <= 127 THEN
       (IF IsNone(erbest) \/ Rank(Compare(d0, erbest)) \in {0, 1} THEN "M1" ELSE "P1")
  ELSE IF IsNone(ebest) \/ Rank(Compare(d0, ebest)) \in {0, 1} THEN "M2"
  ELSE IF IsNone(erbest) THEN "M3"
  ELSE IF same THEN "S1"
  ELSE IF Compare(ebest, erbest) = "BT" THEN "P2" ELSE "M3"

(***************************************************************************)
(* Laws the properties rely on (checked by TLC on a finite domain, see     *)
(* MCBmcaLaws): Compare is antisymmetric, its strict part is transitive    *)
(* except through the error cases, and ties arise only as E1/E2.           *)
(***************************************************************************)
Flip(c) == CASE c = "B" -> "W" [] c = "W" -> "B" [] c = "BT" -> "WT" [] c = "WT" -> "BT" [] OTHER -> c
=============================================================================
