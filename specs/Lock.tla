-------------------------------- MODULE Lock --------------------------------
(***************************************************************************)
(* C17 (ii): threads (ports, the BMCA task, observers) over one reader-     *)
(* writer lock that does not admit a new reader while a writer waits (the   *)
(* daemon's std::sync::RwLock on Linux). Every library operation is a      *)
(* program of lock operations - its acquisition pattern as OBSERVED on the *)
(* real code by the recording mutex:                                        *)
(*   <<"R+">> <<"R-">>  acquire / release a read span                       *)
(*   <<"W+">> <<"W-">>  acquire / release a write span                      *)
(*   <<"w", d, f, id>>  write field f (1 or 2) of data set d, update id     *)
(*   <<"r", d, f>>  an observer reads field f of data set d                 *)
(* Acquire and release are separate steps, so TLC explores every            *)
(* interleaving.                                                            *)
(***************************************************************************)
EXTENDS Naturals, Sequences, FiniteSets, TLC

CONSTANTS Prog, DataSets        \* Prog[t]: sequence of ops of thread t
Threads == DOMAIN Prog
VARIABLES pc, readers, writer, waitW, val, snap
vars == <<pc, readers, writer, waitW, val, snap>>

Init == /\ pc = [t \in Threads |-> 1]
        /\ readers = [t \in Threads |-> 0]
        /\ writer = "none"
        /\ waitW = {}
        /\ val = [d \in DataSets |-> <<"init", "init">>]       \* who wrote field 1 / field 2 last (thread, operation number)
        /\ snap = [t \in Threads |-> [d \in DataSets |-> <<"-", "-">>]]

Op(t) == Prog[t][pc[t]]
Adv(t) == pc' = [pc EXCEPT ![t] = @ + 1]
NoReaders == \A u \in Threads : readers[u] = 0

Step(t) ==
  /\ pc[t] <= Len(Prog[t])
  /\ LET op == Op(t) IN
     CASE op[1] = "R+" -> /\ writer = "none" /\ waitW = {}
                       /\ readers' = [readers EXCEPT ![t] = @ + 1] /\ Adv(t) /\ UNCHANGED <<writer, waitW, val, snap>>
       [] op[1] = "R-" -> /\ readers' = [readers EXCEPT ![t] = @ - 1] /\ Adv(t) /\ UNCHANGED <<writer, waitW, val, snap>>
       [] op[1] = "W+" -> IF t \notin waitW
                       THEN waitW' = waitW \cup {t} /\ UNCHANGED <<pc, readers, writer, val, snap>>      \* announce the write
                       ELSE /\ writer = "none" /\ NoReaders
                            /\ writer' = t /\ waitW' = waitW \ {t} /\ Adv(t) /\ UNCHANGED <<readers, val, snap>>
       [] op[1] = "W-" -> /\ writer' = "none" /\ Adv(t) /\ UNCHANGED <<readers, waitW, val, snap>>
       [] op[1] = "w" -> /\ val' = [val EXCEPT ![op[2]][op[3]] = op[4]] /\ Adv(t) /\ UNCHANGED <<readers, writer, waitW, snap>>
       [] op[1] = "r" -> /\ snap' = [snap EXCEPT ![t][op[2]][op[3]] = val[op[2]][op[3]]] /\ Adv(t) /\ UNCHANGED <<readers, writer, waitW, val>>

Done == \A t \in Threads : pc[t] > Len(Prog[t])
Next == (\E t \in Threads : Step(t)) \/ (Done /\ UNCHANGED vars)
Spec == Init /\ [][Next]_vars

\* no deadlock: some thread can move unless all are done  (CHECK_DEADLOCK TRUE in the cfg does the same)
NoDeadlock == Done \/ \E t \in Threads : ENABLED Step(t)
\* a completed snapshot of a data set shows the two fields as written by one update
JustRead(t, d) == pc[t] > 1 /\ Prog[t][pc[t] - 1] = <<"r", d, 2>>
AtomicSnapshot == \A t \in Threads, d \in DataSets : JustRead(t, d) => snap[t][d][1] = snap[t][d][2]
\* mutual exclusion of the lock itself
LockOK == /\ (writer # "none" => NoReaders)
          /\ \A t \in Threads : readers[t] <= 1        \* no thread holds the lock twice (no nested acquisition)
=============================================================================
