------------------------------ MODULE TraceServo ------------------------------
(***************************************************************************)
(* Binding B for C13: a trace recorded from the real KalmanFilter /        *)
(* BasicFilter (harness/src/bin/servo.rs: one ndjson event per clock        *)
(* command, measurement, demobilisation) is accepted iff it is a behaviour *)
(* of Servo.tla. A command that is not finite, exceeds the bound, is below *)
(* the step threshold, or a second final command, has no matching action:  *)
(* the trace is rejected at that line.                                      *)
(***************************************************************************)
EXTENDS Servo, Json, IOUtils, TLC

Rec == ndJsonDeserialize(IOEnv.TRACE)
VARIABLE l
tvars == <<svars, l>>

TInit == SInit /\ l = 1
IsEvent(e) == l <= Len(Rec) /\ Rec[l].e = e /\ l' = l + 1
TNew == IsEvent("new") /\ New(Rec[l].maxf, Rec[l].thr, Rec[l].basic)
TMeas == IsEvent("meas") /\ Measurement
TFreq == IsEvent("freq") /\ Freq(Rec[l].fin, Rec[l].mag)
TStep == IsEvent("step") /\ Step(Rec[l].fin, Rec[l].mag)
\* the filter update timer fired (Filter::update): no life cycle change; whatever it commands obeys the same guards - in particular
\* nothing may be commanded by a filter that has not seen a measurement yet (a fresh filter installed after the port left SLAVE)
TUpd == IsEvent("upd") /\ UNCHANGED svars
TDemob == IsEvent("demob") /\ Demobilize
TNext == TNew \/ TMeas \/ TFreq \/ TStep \/ TUpd \/ TDemob
TSpec == TInit /\ [][TNext]_tvars

Accepted == IF TLCGet("stats").diameter - 1 = Len(Rec) THEN TRUE
            ELSE Print(<<"REJECTED at line", TLCGet("stats").diameter, Rec[TLCGet("stats").diameter]>>, FALSE)
=============================================================================
