------------------------------ MODULE Instance ------------------------------
(***************************************************************************)
(* One PTP instance of statime (statime/src/ptp_instance.rs) with its      *)
(* ports (statime/src/port/*.rs), as a sans-IO state machine: every public *)
(* call of the library is one handler below, named after the call; the     *)
(* result of a handler is the next abstract state plus everything the call *)
(* hands back to the host: returned PortActions (`out` / `pend`), calls on *)
(* the host clock (`clk`) and on the filter (`flt`).                       *)
(*                                                                         *)
(* The module is written to be bound to the code: model-checking modules   *)
(* (MC*.tla) choose an event alphabet and take `Step(s, ev)`; the same     *)
(* event records are interpreted by the conformance harness               *)
(* (harness/src/world.rs) against the real objects, and `Proj` is compared *)
(* with the harness's projection of the real state after every edge.       *)
(*                                                                         *)
(* Abstractions: clock identities are small naturals (order preserving);   *)
(* timestamps and correction fields are symbolic names, values derived     *)
(* from them are expression trees ("forms"); ages of foreign master        *)
(* records are counted in BMCA steps.                                      *)
(***************************************************************************)
EXTENDS Naturals, Integers, Sequences, FiniteSets, TLC, Bmca

CONSTANTS
  Own,        \* own clock identity
  OwnP,       \* [p1, p2]               own priorities
  Q0,         \* [class, acc, var]      initial clock quality
  SO0,        \* slave-only at creation
  PTrace,     \* path trace option
  TP0,        \* initial time properties record
  PCfg,       \* sequence of port configs [p2p, mo, aml, keep]
              \*   aml : the set of acceptable clock identities; a set containing 0 (AnyId) accepts every identity
              \*   keep: announce interval of the port in BMCA steps (1 if all ports share one interval)
  SeqMod,     \* modulus of sequence ids: 65536; the liveness model uses 1 to make the state space finite
  Ghost,      \* keep the bookkeeping that only serves conformance (rng draw counts, issued timestamp contexts)
  DevDup,     \* deviation of the code kept by a test of the repository: an Announce repeating the last stored
              \*   sequenceId is stored again (FALSE: the intended design, distinct messages only)
  Fwd,        \* the host feeds ForwardTLV actions into the daemon's TlvForwarder
  EmptyOnBmca \* the host empties a master port's forwarder at every BMCA (ethernet port task of the daemon)

NP == Len(PCfg)
Ports == 1..NP

NoPid == <<0, 0>>
NoUtc == 99999        \* "no valid UTC offset" (currentUtcOffsetValid = FALSE)
Fld(r, k, d) == IF k \in DOMAIN r THEN r[k] ELSE d
Min(a, b) == IF a < b THEN a ELSE b
NoneV == [none |-> TRUE]
IsNoneV(x) == "none" \in DOMAIN x
EmptyX == [st |-> "E"]

\* ---------------------------------------------------------------- forms
V(n) == [v |-> n]
FSub(a, b) == [op |-> "sub", l |-> a, r |-> b]
FAdd(a, b) == [op |-> "add", l |-> a, r |-> b]
FHalf(a) == [op |-> "half", x |-> a]
FZero == [op |-> "zero"]
RECURSIVE FNames(_)
FNames(f) == IF "v" \in DOMAIN f THEN {f.v}
             ELSE IF f.op = "zero" THEN {}
             ELSE IF f.op = "half" THEN FNames(f.x)
             ELSE FNames(f.l) \cup FNames(f.r)

\* ---------------------------------------------------------------- constants of the implementation
MaxDataLen == 1024
AnnounceSize == 64
Window == 4          \* FOREIGN_MASTER_TIME_WINDOW
Threshold == 2       \* FOREIGN_MASTER_THRESHOLD
MaxMsgs == 8
MaxMasters == 8
ChanCap == 128       \* capacity of the daemon's broadcast channel
DefaultTp == [utc |-> NoUtc, leap |-> 0, tt |-> FALSE, ft |-> FALSE, ptp |-> TRUE, src |-> 160]

Cut(p) == Window * PCfg[p].keep
AnyId == {0}            \* acceptable master list that accepts every identity
Acceptable(p, clk) == 0 \in PCfg[p].aml \/ clk \in PCfg[p].aml
Propagates(ty) == ty = 8 \/ ty = 9 \/ (ty >= 16384 /\ ty <= 32767)
TlvSize(t) == 4 + t.len
PathTlv(path) == [ty |-> 8, len |-> 8 * Len(path), tag |-> 0, path |-> path]

OwnAttr(q) == <<OwnP.p1, q.class, q.acc, q.var, OwnP.p2, Own>>
AttrRec(a) == [id |-> a[6], p1 |-> a[1], class |-> a[2], acc |-> a[3], var |-> a[4], p2 |-> a[5]]

\* ---------------------------------------------------------------- initial state
Init0 ==
  [so |-> SO0, q |-> Q0,
   pst |-> [p \in Ports |-> "L"], rm |-> [p \in Ports |-> NoPid],
   ppi |-> <<Own, 0>>, gm |-> OwnAttr(Q0), steps |-> 0, tp |-> TP0, path |-> <<>>,
   fml |-> [p \in Ports |-> <<>>], mpd |-> [p \in Ports |-> -1],
   nseq |-> [p \in Ports |-> [ann |-> 0, sync |-> 0, dreq |-> 0, pdreq |-> 0]],
   sy |-> [p \in Ports |-> EmptyX], dl |-> [p \in Ports |-> EmptyX],
   lrs |-> [p \in Ports |-> NoneV], md |-> [p \in Ports |-> NoneV],
   pd |-> [p \in Ports |-> EmptyX],
   ctx |-> [p \in Ports |-> <<>>],
   fq |-> [p \in Ports |-> [peek |-> <<>>, chan |-> <<>>]],
   rngc |-> [p \in Ports |-> 1]]          \* Port::new draws once for the initial receipt timeout

\* result of a call
Res(s, out) == [s |-> s, out |-> out, clk |-> <<>>, flt |-> <<>>]
Res3(s, out, clk, flt) == [s |-> s, out |-> out, clk |-> clk, flt |-> flt]
NoOp(s) == Res(s, <<>>)

\* timers as returned actions: kind, duration class ("0" zero, "I" the configured interval, "R" the randomised one)
T(k, d) == [a |-> "T", k |-> k, d |-> d]

\* ---------------------------------------------------------------- set_forced_port_state (port/mod.rs)
\* Returns [s, clk, flt]. The slave sub-state lives inside PortState::Slave, so it is fresh after every change.
SetForced(s, p, new, remote) ==
  LET old == s.pst[p]
      repl == old \in {"S", "F"} \/ new = "F"
  IN [s |-> [s EXCEPT !.pst[p] = new, !.rm[p] = remote,
                      !.sy[p] = EmptyX, !.dl[p] = EmptyX, !.lrs[p] = NoneV],
      clk |-> IF repl THEN << <<p, "freq", 0>> >> ELSE <<>>,
      flt |-> IF repl THEN << [p |-> p, k |-> "new"], [p |-> p, k |-> "demob"] >> ELSE <<>>]

Draw(s, p) == IF Ghost THEN [s EXCEPT !.rngc[p] = @ + 1] ELSE s

\* ---------------------------------------------------------------- foreign master list (bmc/foreign_master.rs)
SeqDiff(a, b) == (a + SeqMod - b) % SeqMod
HalfSeq == IF SeqMod = 65536 THEN 32767 ELSE SeqMod      \* u16::MAX / 2
FmIdx(f, id) == IF \E k \in 1..Len(f) : f[k].id = id THEN CHOOSE k \in 1..Len(f) : f[k].id = id ELSE 0
Purge(l, cut) == SelectSeq(l, LAMBDA x : x.age < cut)

\* ForeignMasterList::register_announce_message(header, message, age)
Register(f, own, cut, c, age) ==
  LET i == FmIdx(f, c.src) IN
  IF c.src[1] = own THEN f
  ELSE IF i # 0 /\ Len(f[i].msgs) > 0 /\ SeqDiff(c.seq, f[i].msgs[Len(f[i].msgs)].c.seq) >= HalfSeq THEN f
  ELSE IF ~DevDup /\ age = 0 /\ i # 0 /\ Len(f[i].msgs) > 0 /\ SeqDiff(c.seq, f[i].msgs[Len(f[i].msgs)].c.seq) = 0 THEN f
  ELSE IF c.steps >= 255 THEN f
  ELSE IF i # 0 THEN
       LET l == Purge(f[i].msgs, cut)
           m == [c |-> c, age |-> age]
           l2 == IF Len(l) = MaxMsgs THEN Append(Tail(l), m) ELSE Append(l, m)
       IN [f EXCEPT ![i].msgs = l2]
  ELSE IF Len(f) < MaxMasters THEN Append(f, [id |-> c.src, msgs |-> <<[c |-> c, age |-> 0]>>])
  ELSE f

\* comparison data set of a stored announce received on port p
DsOf(c, p) == [gm |-> c.g, steps |-> c.steps, snd |-> c.src[1], rcv |-> <<Own, p>>]

\* BestAnnounceMessage::compare: data set comparison, then the younger message
Pref(x, y) ==   \* 1: x greater, 0: equal, 2: y greater   (x, y: [c, age, p])
  LET r == Rank(Compare(DsOf(x.c, x.p), DsOf(y.c, y.p))) IN
  IF r # 0 THEN r ELSE IF x.age < y.age THEN 1 ELSE IF x.age > y.age THEN 2 ELSE 0

\* Iterator::max_by over a sequence: the LAST maximal element
RECURSIVE MaxBy(_, _, _)
MaxBy(sq, i, best) ==
  IF i > Len(sq) THEN best
  ELSE MaxBy(sq, i + 1, IF Pref(sq[i], best) \in {0, 1} THEN sq[i] ELSE best)
Best(sq) == MaxBy(sq, 2, sq[1])

\* take_best_port_announce_message on port p: returns [f, er]
TakeBest(f, p) ==
  LET n == Len(f)
      qual == {i \in 1..n : Len(f[i].msgs) >= Threshold}
      \* candidates in visiting order: masters last-to-first
      RECURSIVE Cands(_)
      Cands(i) == IF i = 0 THEN <<>>
                  ELSE IF i \in qual
                       THEN <<[c |-> f[i].msgs[Len(f[i].msgs)].c, age |-> f[i].msgs[Len(f[i].msgs)].age, p |-> p]>> \o Cands(i - 1)
                       ELSE Cands(i - 1)
      cands == Cands(n)
      taken == [i \in 1..n |-> IF i \in qual THEN [f[i] EXCEPT !.msgs = SubSeq(@, 1, Len(@) - 1)] ELSE f[i]]
  IN IF cands = <<>> THEN [f |-> f, er |-> NoneV]
     ELSE LET b == Best(cands)
          IN [f |-> (IF Acceptable(p, b.c.src[1]) /\ b.c.src # <<Own, p>>
                     THEN Register(taken, Own, Cut(p), b.c, b.age) ELSE taken),
              er |-> b]

\* ForeignMasterList::step_age
StepAge(f, cut) ==
  SelectSeq([i \in 1..Len(f) |->
               [f[i] EXCEPT !.msgs = Purge([k \in 1..Len(@) |-> [@[k] EXCEPT !.age = @ + 1]], cut)]],
            LAMBDA x : Len(x.msgs) > 0)

\* ---------------------------------------------------------------- the daemon's TLV forwarder (statime-linux/src/tlvforwarder.rs)
\* one receiver per port: `peek` (at most one element) and the channel backlog (the last ChanCap values sent)
FqPush(q, t) == [q EXCEPT !.chan = IF Len(@) = ChanCap THEN Append(Tail(@), t) ELSE Append(@, t)]
FqHead(q) == IF q.peek # <<>> THEN q.peek[1] ELSE q.chan[1]
FqEmpty(q) == q.peek = <<>> /\ q.chan = <<>>
\* next_if_smaller(max): move the head into peek; hand it out iff its size <= max
FqPop(q) == IF q.peek # <<>> THEN [q EXCEPT !.peek = <<>>] ELSE [q EXCEPT !.chan = Tail(@)]
FqHold(q) == IF q.peek # <<>> THEN q ELSE [peek |-> <<q.chan[1]>>, chan |-> Tail(q.chan)]
Forward(s, p, tlvs) ==     \* host: ForwardTLV actions of port p are broadcast to every receiver
  IF ~Fwd THEN s
  ELSE LET RECURSIVE PushAll(_, _)
           PushAll(q, i) == IF i > Len(tlvs) THEN q ELSE PushAll(FqPush(q, tlvs[i]), i + 1)
       IN [s EXCEPT !.fq = [x \in Ports |-> PushAll(s.fq[x], 1)]]

\* ---------------------------------------------------------------- handle_announce (port/bmca.rs)
\* m: [src, seq, g, steps, tp, haspath, path, tlvs]     (tlvs: other TLVs of the suffix, after the path trace TLV)
HandleAnnounce(s, p, ev) ==
  LET m == [src |-> ev.src, seq |-> ev.seq, g |-> ev.g, steps |-> ev.steps, tp |-> Fld(ev, "tp", DefaultTp),
            haspath |-> "path" \in DOMAIN ev, path |-> Fld(ev, "path", <<>>), tlvs |-> Fld(ev, "tlvs", <<>>)]
      fromParent == s.pst[p] = "S" /\ m.src = s.ppi
      loop == fromParent /\ PTrace /\ m.haspath /\ \E i \in 1..Len(m.path) : m.path[i] = Own
      s1 == IF fromParent /\ ~loop
            THEN [s EXCEPT !.steps = Min(m.steps + 1, 65535), !.ppi = m.src, !.gm = m.g, !.tp = m.tp,
                           !.path = IF PTrace /\ m.haspath THEN SubSeq(m.path, 1, Min(Len(m.path), 128)) ELSE @]
            ELSE s
      accepted == m.src # <<Own, p>> /\ Acceptable(p, m.src[1])
      c == [src |-> m.src, seq |-> m.seq, g |-> m.g, steps |-> m.steps, tp |-> m.tp]
      s2 == [s1 EXCEPT !.fml[p] = Register(@, Own, Cut(p), c, 0)]
      multi == m.src[1] = Own /\ p > m.src[2]
      f == IF multi THEN SetForced([s2 EXCEPT !.mpd[p] = 0], p, "P", NoPid)
           ELSE [s |-> s2, clk |-> <<>>, flt |-> <<>>]
      all == (IF m.haspath THEN <<PathTlv(m.path)>> ELSE <<>>) \o m.tlvs
      prop == SelectSeq(all, LAMBDA t : Propagates(t.ty))
      fw == [i \in 1..Len(prop) |-> [a |-> "F", tlv |-> prop[i], snd |-> m.src]]
      queued == [i \in 1..Len(prop) |-> [tlv |-> prop[i], snd |-> m.src]]
  IN IF loop THEN NoOp(s)
     ELSE IF ~accepted THEN NoOp(s1)
     ELSE Res3(Forward(Draw(f.s, p), p, queued), <<T("rcpt", "R")>> \o fw, f.clk, f.flt)

\* ---------------------------------------------------------------- PtpInstance::bmca (ptp_instance.rs, port/bmca.rs, bmc/bmca.rs)
RunBmca(s, ord) ==      \* ord: the order in which the host passes the ports (a permutation of Ports)
  LET tk == [p \in Ports |-> TakeBest(s.fml[p], p)]
      er == [p \in Ports |-> tk[p].er]
      \* Ebest: ports that are neither master-only nor faulty, slice order, last maximal wins
      RECURSIVE Glob(_)
      Glob(i) == IF i > NP THEN <<>>
                 ELSE LET p == ord[i] IN
                      IF ~IsNoneV(er[p]) /\ ~PCfg[p].mo /\ s.pst[p] # "F" THEN <<er[p]>> \o Glob(i + 1)
                      ELSE Glob(i + 1)
      gl == Glob(1)
      eb == IF gl = <<>> THEN NoneV ELSE Best(gl)
      d0 == D0(OwnAttr(s.q), Own)
      dsOf(x) == IF IsNoneV(x) THEN NoDs ELSE DsOf(x.c, x.p)
      dec == [p \in Ports |-> Decision(d0, s.q.class, dsOf(eb), dsOf(er[p]), er[p] = eb, s.pst[p] = "L")]
      \* port transitions in port order, accumulating clock / filter calls; returns [s, clk, flt, pend]
      RECURSIVE Apply(_, _)
      Apply(acc, i) ==
        IF i > NP THEN acc
        ELSE
          LET p == ord[i]
              st == acc.s
              d == dec[p]
              cur == st.pst[p]
              \* set_recommended_port_state
              tr == CASE d = "S1" ->
                          LET remote == er[p].c.src
                              upd == cur \in {"L", "M", "P"} \/ (cur = "S" /\ st.rm[p] # remote)
                          IN IF upd THEN [f |-> SetForced(Draw(st, p), p, "S", remote), pend |-> <<T("rcpt", "R"), T("dreq", "0")>>]
                             ELSE [f |-> [s |-> st, clk |-> <<>>, flt |-> <<>>], pend |-> <<>>]
                      [] d \in {"M1", "M2", "M3"} ->
                          IF st.so THEN
                            (IF cur \in {"S", "P", "M"}
                             THEN [f |-> SetForced(Draw(st, p), p, "L", NoPid), pend |-> <<T("rcpt", "R")>>]
                             ELSE [f |-> [s |-> st, clk |-> <<>>, flt |-> <<>>], pend |-> <<>>])
                          ELSE IF st.mpd[p] # -1 THEN
                            (IF cur # "P" THEN [f |-> SetForced(st, p, "P", NoPid), pend |-> <<>>]
                             ELSE [f |-> [s |-> st, clk |-> <<>>, flt |-> <<>>], pend |-> <<>>])
                          ELSE IF cur \in {"L", "S", "P"}
                            THEN [f |-> SetForced(st, p, "M", NoPid), pend |-> <<T("ann", "0"), T("sync", "0")>>]
                            ELSE [f |-> [s |-> st, clk |-> <<>>, flt |-> <<>>], pend |-> <<>>]
                      [] d \in {"P1", "P2"} ->
                          IF cur \in {"L", "S", "M"} THEN [f |-> SetForced(st, p, "P", NoPid), pend |-> <<>>]
                          ELSE [f |-> [s |-> st, clk |-> <<>>, flt |-> <<>>], pend |-> <<>>]
                      [] OTHER -> [f |-> [s |-> st, clk |-> <<>>, flt |-> <<>>], pend |-> <<>>]
              s1 == tr.f.s
              \* set_recommended_state: data set updates
              s2 == CASE d \in {"M1", "M2"} ->
                          [s1 EXCEPT !.steps = 0, !.ppi = <<Own, 0>>, !.gm = OwnAttr(s1.q), !.tp = DefaultTp, !.path = <<>>]
                      [] d = "S1" ->
                          [s1 EXCEPT !.steps = er[p].c.steps + 1, !.ppi = er[p].c.src, !.gm = er[p].c.g, !.tp = er[p].c.tp]
                      [] OTHER -> s1
              props == IF d = "S1" THEN << <<p, "props", er[p].c.tp>> >> ELSE <<>>
          IN Apply([s |-> s2, clk |-> acc.clk \o tr.f.clk \o props, flt |-> acc.flt \o tr.f.flt,
                    pend |-> [acc.pend EXCEPT ![p] = tr.pend]], i + 1)
      s0 == [s EXCEPT !.fml = [p \in Ports |-> tk[p].f]]
      ap == Apply([s |-> s0, clk |-> <<>>, flt |-> <<>>, pend |-> [p \in Ports |-> <<>>]], 1)
      \* step_announce_age
      s3 == [ap.s EXCEPT !.mpd = [p \in Ports |-> IF @[p] # -1 /\ @[p] + 1 < PCfg[p].keep THEN @[p] + 1 ELSE -1],
                         !.fml = [p \in Ports |-> StepAge(@[p], Cut(p))]]
      \* host (ethernet port task): a port that is master after the BMCA has its forwarder emptied
      s4 == IF Fwd /\ EmptyOnBmca
            THEN [s3 EXCEPT !.fq = [p \in Ports |-> IF s3.pst[p] = "M" THEN [peek |-> <<>>, chan |-> <<>>] ELSE @[p]]]
            ELSE s3
  IN [s |-> s4, pend |-> ap.pend, clk |-> ap.clk, flt |-> ap.flt, dec |-> dec]

\* ---------------------------------------------------------------- timers
\* send_announce (port/master.rs) with the forwarder as TLV provider
RECURSIVE Drain(_, _, _, _)
Drain(q, room, ppi, acc) ==        \* returns [q, tlvs]
  IF FqEmpty(q) THEN [q |-> q, tlvs |-> acc]
  ELSE LET h == FqHead(q) IN
       IF TlvSize(h.tlv) > room THEN [q |-> FqHold(q), tlvs |-> acc]
       ELSE IF h.snd # ppi THEN Drain(FqPop(q), room, ppi, acc)
       ELSE IF PTrace /\ h.tlv.ty = 8 THEN Drain(FqPop(q), room, ppi, acc)
       ELSE Drain(FqPop(q), room - TlvSize(h.tlv), ppi, Append(acc, h.tlv))

AnnounceTimer(s, p, useFwd) ==
  IF s.pst[p] # "M" THEN NoOp(s)
  ELSE
    LET seq == s.nseq[p].ann
        room0 == MaxDataLen - AnnounceSize
        own == PathTlv(Append(s.path, Own))
        withPath == PTrace /\ Len(s.path) < 128 /\ room0 > TlvSize(own)
        room1 == IF withPath THEN room0 - TlvSize(own) ELSE room0
        dr == IF Fwd /\ useFwd THEN Drain(s.fq[p], room1, s.ppi, <<>>) ELSE [q |-> s.fq[p], tlvs |-> <<>>]
        tlvs == (IF withPath THEN <<own>> ELSE <<>>) \o dr.tlvs
        fr == [a |-> "G", ll |-> FALSE, t |-> "Announce", seq |-> seq, src |-> <<Own, p>>, dom |-> 0, sdo |-> 0, ver |-> 2,
               gm |-> AttrRec(s.gm), steps |-> s.steps, tp |-> s.tp, tlvs |-> tlvs, selfdec |-> TRUE]
    IN Res([s EXCEPT !.nseq[p].ann = (@ + 1) % SeqMod, !.fq[p] = dr.q], <<T("ann", "I"), fr>>)

SyncTimer(s, p) ==
  IF s.pst[p] # "M" THEN NoOp(s)
  ELSE LET seq == s.nseq[p].sync
           c == [k |-> "Sync", id |-> seq, req |-> NoPid]
       IN Res([s EXCEPT !.nseq[p].sync = (@ + 1) % SeqMod, !.ctx[p] = IF Ghost THEN Append(@, c) ELSE @],
              <<T("sync", "I"),
                [a |-> "E", ll |-> FALSE, t |-> "Sync", seq |-> seq, src |-> <<Own, p>>, dom |-> 0, sdo |-> 0, ver |-> 2,
                 two |-> TRUE, ctx |-> Len(s.ctx[p]) + 1, selfdec |-> TRUE]>>)

DelayReqTimer(s, p) ==
  IF PCfg[p].p2p THEN
     LET id == s.nseq[p].pdreq
         c == [k |-> "PDelayReq", id |-> id, req |-> NoPid]
     IN Res(Draw([s EXCEPT !.nseq[p].pdreq = (@ + 1) % SeqMod, !.ctx[p] = IF Ghost THEN Append(@, c) ELSE @,
                           !.pd[p] = [st |-> "M", id |-> id, r |-> NoPid, t1 |-> NoneV, t2 |-> NoneV, t3 |-> NoneV, t4 |-> NoneV]], p),
            <<T("dreq", "R"),
              [a |-> "E", ll |-> TRUE, t |-> "PdelayReq", seq |-> id, src |-> <<Own, p>>, dom |-> 0, sdo |-> 0, ver |-> 2,
               ctx |-> Len(s.ctx[p]) + 1, selfdec |-> TRUE]>>)
  ELSE IF s.pst[p] # "S" THEN NoOp(s)
  ELSE
     LET id == s.nseq[p].dreq
         c == [k |-> "DelayReq", id |-> id, req |-> NoPid]
     IN Res(Draw([s EXCEPT !.nseq[p].dreq = (@ + 1) % SeqMod, !.ctx[p] = IF Ghost THEN Append(@, c) ELSE @,
                           !.dl[p] = [st |-> "M", id |-> id, send |-> NoneV, recv |-> NoneV]], p),
            <<T("dreq", "R"),
              [a |-> "E", ll |-> FALSE, t |-> "DelayReq", seq |-> id, src |-> <<Own, p>>, dom |-> 0, sdo |-> 0, ver |-> 2,
               logi |-> 127, ctx |-> Len(s.ctx[p]) + 1, selfdec |-> TRUE]>>)

ReceiptTimer(s, p) ==
  IF s.pst[p] = "F" THEN Res(Draw(s, p), <<T("rcpt", "R")>>)      \* a faulty port stays out of the protocol and keeps the timer running
  ELSE IF s.so THEN
     LET f == IF s.pst[p] # "L" THEN SetForced(s, p, "L", NoPid) ELSE [s |-> s, clk |-> <<>>, flt |-> <<>>]
     IN Res3(Draw(f.s, p), <<T("rcpt", "R")>>, f.clk, f.flt)
  ELSE
     LET f == IF s.pst[p] # "M" THEN SetForced(s, p, "M", NoPid) ELSE [s |-> s, clk |-> <<>>, flt |-> <<>>]
     IN Res3(f.s, <<T("ann", "0"), T("sync", "0")>>, f.clk, f.flt)

FilterTimer(s, p) == Res3(s, <<>>, <<>>, <<[p |-> p, k |-> "upd"]>>)

\* ---------------------------------------------------------------- measurements (port/slave.rs: extract_measurement + handle_time_measurement)
Asym(p) == V("asym")
Opt(x) == x        \* an absent optional is the record NoneV; the harness compares it with null

TryMeasure(s, p) ==
  LET pd == s.pd[p] IN
  IF pd.st = "M" /\ ~IsNoneV(pd.t1) /\ ~IsNoneV(pd.t2) /\ ~IsNoneV(pd.t3) /\ ~IsNoneV(pd.t4) /\ pd.r # NoPid THEN
     LET d == FHalf(FSub(FSub(pd.t4, pd.t1), FSub(pd.t3, pd.t2)))
         s1 == [s EXCEPT !.pd[p] = [st |-> "P", id |-> pd.id, r |-> pd.r]]
         f == IF s1.pst[p] = "F" THEN SetForced(s1, p, "L", NoPid) ELSE [s |-> s1, clk |-> <<>>, flt |-> <<>>]
         m == [p |-> p, k |-> "meas", et |-> pd.t4, off |-> NoneV, dly |-> NoneV, pdly |-> d, rs |-> NoneV, rd |-> NoneV]
     IN Res3([f.s EXCEPT !.md[p] = d], <<>>, f.clk, f.flt \o <<m>>)
  ELSE IF s.pst[p] # "S" THEN NoOp(s)
  ELSE
     LET sy == s.sy[p]  dl == s.dl[p] IN
     IF sy.st = "M" /\ ~IsNoneV(sy.send) /\ ~IsNoneV(sy.recv) THEN
        LET raw == FSub(FSub(sy.recv, sy.send), Asym(p))
            off == IF IsNoneV(s.md[p]) THEN NoneV ELSE FSub(raw, s.md[p])
            m == [p |-> p, k |-> "meas", et |-> sy.recv, off |-> Opt(off), dly |-> NoneV, pdly |-> NoneV, rs |-> raw, rd |-> NoneV]
        IN Res3([s EXCEPT !.lrs[p] = raw, !.sy[p] = EmptyX], <<>>,
                IF IsNoneV(off) THEN <<>> ELSE << <<p, "freq", 1>> >>, <<m>>)
     ELSE IF dl.st = "M" /\ ~IsNoneV(dl.send) /\ ~IsNoneV(dl.recv) THEN
        LET rawd == FSub(FSub(dl.send, dl.recv), Asym(p))
            d == IF IsNoneV(s.lrs[p]) THEN NoneV ELSE FHalf(FSub(s.lrs[p], rawd))
            m == [p |-> p, k |-> "meas", et |-> dl.send, off |-> NoneV, dly |-> Opt(d), pdly |-> NoneV, rs |-> NoneV, rd |-> rawd]
        IN Res3([s EXCEPT !.dl[p] = EmptyX, !.md[p] = IF IsNoneV(d) THEN @ ELSE d], <<>>, <<>>, <<m>>)
     ELSE NoOp(s)

\* ---------------------------------------------------------------- handle_send_timestamp
SendTimestamp(s0, p, ci, tn) ==
  LET c == s0.ctx[p][ci]
      s == [s0 EXCEPT !.ctx[p][ci].k = "used"]     \* a TimestampContext is consumed by the call
      t == V(tn)
  IN CASE c.k = "Sync" ->
            IF s.pst[p] = "M"
            THEN Res(s, <<[a |-> "G", ll |-> FALSE, t |-> "FollowUp", seq |-> c.id, src |-> <<Own, p>>, dom |-> 0, sdo |-> 0, ver |-> 2,
                           tsum |-> t, ts |-> t, selfdec |-> TRUE]>>)
            ELSE NoOp(s)
       [] c.k = "DelayReq" ->
            IF s.pst[p] = "S" /\ s.dl[p].st = "M" /\ s.dl[p].id = c.id /\ IsNoneV(s.dl[p].send)
            THEN TryMeasure([s EXCEPT !.dl[p].send = t], p)
            ELSE NoOp(s)
       [] c.k = "PDelayReq" ->
            IF s.pd[p].st = "M" /\ s.pd[p].id = c.id /\ IsNoneV(s.pd[p].t1)
            THEN TryMeasure([s EXCEPT !.pd[p].t1 = t], p)
            ELSE NoOp(s)
       [] c.k = "PDelayResp" ->
            Res(s, <<[a |-> "G", ll |-> TRUE, t |-> "PdelayRespFup", seq |-> c.id, src |-> <<Own, p>>, dom |-> 0, sdo |-> 0, ver |-> 2,
                      req |-> c.req, ts |-> t, corr |-> "0", selfdec |-> TRUE]>>)

\* ---------------------------------------------------------------- received Sync / Follow_Up / Delay_Resp (port/slave.rs)
HandleSync(s, p, m) ==       \* m: [src, seq, two, rx, c, w1]
  IF s.pst[p] # "S" \/ s.rm[p] # m.src THEN NoOp(s)
  ELSE
    LET sy == s.sy[p]
        rcv == FSub(V(m.rx), V(m.c))
    IN IF m.two THEN
          IF sy.st = "M" /\ sy.id = m.seq /\ ~IsNoneV(sy.recv) THEN NoOp(s)
          ELSE IF sy.st = "M" /\ sy.id = m.seq THEN TryMeasure([s EXCEPT !.sy[p].recv = rcv], p)
          ELSE NoOp([s EXCEPT !.sy[p] = [st |-> "M", id |-> m.seq, send |-> NoneV, recv |-> rcv]])
       ELSE
          IF sy.st = "M" /\ sy.id = m.seq THEN NoOp(s)
          ELSE TryMeasure([s EXCEPT !.sy[p] = [st |-> "M", id |-> m.seq, send |-> V(m.w1), recv |-> rcv]], p)

HandleFollowUp(s, p, m) ==   \* m: [src, seq, w1, c]
  IF s.pst[p] # "S" \/ s.rm[p] # m.src THEN NoOp(s)
  ELSE
    LET sy == s.sy[p]
        snd == FAdd(V(m.w1), V(m.c))
    IN IF sy.st = "M" /\ sy.id = m.seq /\ ~IsNoneV(sy.send) THEN NoOp(s)
       ELSE IF sy.st = "M" /\ sy.id = m.seq THEN TryMeasure([s EXCEPT !.sy[p].send = snd], p)
       ELSE TryMeasure([s EXCEPT !.sy[p] = [st |-> "M", id |-> m.seq, send |-> snd, recv |-> NoneV]], p)

HandleDelayResp(s, p, m) ==  \* m: [src, seq, req, w4, c]
  IF s.pst[p] # "S" \/ m.req # <<Own, p>> \/ s.rm[p] # m.src THEN NoOp(s)
  ELSE
    LET dl == s.dl[p] IN
    IF dl.st = "M" /\ dl.id = m.seq /\ ~IsNoneV(dl.recv) THEN NoOp(s)
    ELSE IF dl.st = "M" /\ dl.id = m.seq THEN TryMeasure([s EXCEPT !.dl[p].recv = FSub(V(m.w4), V(m.c))], p)
    ELSE NoOp(s)

\* ---------------------------------------------------------------- master side (port/master.rs)
HandleDelayReq(s, p, m) ==   \* m: [src, seq, c, rx, f0, minor]
  IF s.pst[p] # "M" THEN NoOp(s)
  ELSE Res(s, <<[a |-> "G", ll |-> FALSE, t |-> "DelayResp", seq |-> m.seq, src |-> <<Own, p>>, dom |-> 0, sdo |-> 0, ver |-> 2,
                 req |-> m.src, two |-> FALSE, tsum |-> FAdd(V(m.rx), V(m.c)), ts |-> V(m.rx), selfdec |-> TRUE]>>)

HandlePdelayReq(s, p, m) ==  \* m: [src, seq, c, rx]
  LET c == [k |-> "PDelayResp", id |-> m.seq, req |-> m.src]
  IN Res([s EXCEPT !.ctx[p] = IF Ghost THEN Append(@, c) ELSE @],
         <<[a |-> "E", ll |-> TRUE, t |-> "PdelayResp", seq |-> m.seq, src |-> <<Own, p>>, dom |-> 0, sdo |-> 0, ver |-> 2,
            req |-> m.src, two |-> TRUE, ts |-> V(m.rx), corr |-> V(m.c), ctx |-> Len(s.ctx[p]) + 1, selfdec |-> TRUE]>>)

\* ---------------------------------------------------------------- peer delay responses (port/slave.rs)
PdFaulty(s, p) ==
  LET f == SetForced(s, p, "F", NoPid) IN Res3(f.s, <<>>, f.clk, f.flt)

HandlePdelayResp(s, p, m) ==     \* m: [src, seq, req, two, w2, c, rx]
  LET pd == s.pd[p] IN
  IF m.req # <<Own, p>> THEN NoOp(s)
  ELSE IF pd.st = "P" /\ pd.id = m.seq /\ pd.r # m.src THEN PdFaulty(s, p)
  ELSE IF pd.st = "M" /\ pd.id = m.seq /\ pd.r # NoPid /\ pd.r # m.src THEN PdFaulty(s, p)
  ELSE IF pd.st = "M" /\ pd.id = m.seq /\ ~IsNoneV(pd.t4) THEN NoOp(s)
  ELSE IF pd.st = "M" /\ pd.id = m.seq THEN
       LET p1 == [pd EXCEPT !.t4 = FSub(V(m.rx), V(m.c)), !.t2 = V(m.w2), !.r = m.src]
           p2 == IF m.two THEN p1 ELSE [p1 EXCEPT !.t3 = V(m.w2)]
       IN TryMeasure([s EXCEPT !.pd[p] = p2], p)
  ELSE NoOp(s)

HandlePdelayRespFup(s, p, m) ==  \* m: [src, seq, req, w3, c]
  LET pd == s.pd[p] IN
  IF m.req # <<Own, p>> THEN NoOp(s)
  ELSE IF pd.st = "P" /\ pd.id = m.seq /\ pd.r # m.src THEN PdFaulty(s, p)
  ELSE IF pd.st = "M" /\ pd.id = m.seq /\ pd.r # NoPid /\ pd.r # m.src THEN PdFaulty(s, p)
  ELSE IF pd.st = "M" /\ pd.id = m.seq /\ ~IsNoneV(pd.t3) THEN NoOp(s)
  ELSE IF pd.st = "M" /\ pd.id = m.seq THEN
       TryMeasure([s EXCEPT !.pd[p] = [pd EXCEPT !.t3 = FAdd(V(m.w3), V(m.c)), !.r = m.src]], p)
  ELSE NoOp(s)

\* ---------------------------------------------------------------- run-time settings (ptp_instance.rs)
SetSlaveOnly(s, v) == NoOp([s EXCEPT !.so = v])
SetQuality(s, q) == NoOp([s EXCEPT !.q = q])

\* ---------------------------------------------------------------- dispatch: one event of the host alphabet
\* parse_and_filter: frames with another version, domain or sdoId, and malformed frames, are dropped
Filtered(ev) == ("ver" \in DOMAIN ev /\ ev.ver # 2) \/ ("dom" \in DOMAIN ev /\ ev.dom # 0)
                \/ ("sdo" \in DOMAIN ev /\ ev.sdo # 0) \/ ("bad" \in DOMAIN ev /\ ev.bad)
\* channel on which a frame arrives: the event channel hands Sync, Delay_Req, Pdelay_Req, Pdelay_Resp to their
\* handlers and everything else to the general handler; the general channel ignores the four event types
OnEvent(ev) == IF "chan" \in DOMAIN ev THEN ev.chan = "e" ELSE ev.e \in {"sync", "dreq", "pdreq", "pdresp"}

Step(s, ev) ==
  CASE ev.e = "bmca" -> LET r == RunBmca(s, Fld(ev, "ord", [p \in Ports |-> p])) IN [s |-> r.s, pend |-> r.pend, clk |-> r.clk, flt |-> r.flt]
    [] ev.e = "so" -> SetSlaveOnly(s, ev.v)
    [] ev.e = "q" -> SetQuality(s, ev.q)
    [] ev.e = "t" -> (CASE ev.k = "ann" -> AnnounceTimer(s, ev.p, TRUE)
                        [] ev.k = "sync" -> SyncTimer(s, ev.p)
                        [] ev.k = "dreq" -> DelayReqTimer(s, ev.p)
                        [] ev.k = "rcpt" -> ReceiptTimer(s, ev.p)
                        [] ev.k = "filt" -> FilterTimer(s, ev.p))
    [] ev.e = "ts" -> SendTimestamp(s, ev.p, ev.c, ev.t)
    [] Filtered(ev) -> NoOp(s)
    [] ev.e = "ann" -> HandleAnnounce(s, ev.p, ev)
    [] ev.e = "sync" -> IF OnEvent(ev) THEN HandleSync(s, ev.p, ev) ELSE NoOp(s)
    [] ev.e = "fup" -> HandleFollowUp(s, ev.p, ev)
    [] ev.e = "dresp" -> HandleDelayResp(s, ev.p, ev)
    [] ev.e = "dreq" -> IF OnEvent(ev) THEN HandleDelayReq(s, ev.p, ev) ELSE NoOp(s)
    [] ev.e = "pdreq" -> IF OnEvent(ev) THEN HandlePdelayReq(s, ev.p, ev) ELSE NoOp(s)
    [] ev.e = "pdresp" -> IF OnEvent(ev) THEN HandlePdelayResp(s, ev.p, ev) ELSE NoOp(s)
    [] ev.e = "pdfup" -> HandlePdelayRespFup(s, ev.p, ev)
    [] ev.e \in {"sig", "mgmt", "raw"} -> NoOp(s)

\* ---------------------------------------------------------------- projection compared with the real code
SnapOf(s, p) ==
  [rm |-> IF s.pst[p] = "S" THEN s.rm[p] ELSE "null",
   sync |-> (IF s.sy[p].st = "E" THEN [st |-> "E"] ELSE [st |-> "M", id |-> s.sy[p].id, send |-> Opt(s.sy[p].send), recv |-> Opt(s.sy[p].recv)]),
   delay |-> (IF s.dl[p].st = "E" THEN [st |-> "E"] ELSE [st |-> "M", id |-> s.dl[p].id, send |-> Opt(s.dl[p].send), recv |-> Opt(s.dl[p].recv)]),
   lrs |-> Opt(s.lrs[p]), md |-> Opt(s.md[p]),
   pd |-> (CASE s.pd[p].st = "E" -> [st |-> "E"]
             [] s.pd[p].st = "P" -> [st |-> "P", id |-> s.pd[p].id, r |-> s.pd[p].r]
             [] OTHER -> [st |-> "M", id |-> s.pd[p].id, r |-> (IF s.pd[p].r = NoPid THEN "null" ELSE s.pd[p].r),
                          t1 |-> Opt(s.pd[p].t1), t2 |-> Opt(s.pd[p].t2), t3 |-> Opt(s.pd[p].t3), t4 |-> Opt(s.pd[p].t4)]),
   mpd |-> IF s.mpd[p] = -1 THEN "null" ELSE (s.mpd[p] * 1000) \div PCfg[p].keep,
   nseq |-> <<s.nseq[p].ann, s.nseq[p].sync, s.nseq[p].dreq, s.nseq[p].pdreq>>,
   fml |-> [i \in 1..Len(s.fml[p]) |->
              [id |-> s.fml[p][i].id,
               msgs |-> [k \in 1..Len(s.fml[p][i].msgs) |->
                           [seq |-> s.fml[p][i].msgs[k].c.seq, age |-> (s.fml[p][i].msgs[k].age * 1000) \div PCfg[p].keep,
                            steps |-> s.fml[p][i].msgs[k].c.steps]]]]]

Proj(s) ==
  [pst |-> s.pst, ppi |-> s.ppi, gm |-> AttrRec(s.gm), steps |-> s.steps, tp |-> s.tp, path |-> s.path,
   dds |-> [so |-> s.so, class |-> s.q.class, acc |-> s.q.acc, var |-> s.q.var],
   rng |-> s.rngc,
   snap |-> [p \in Ports |-> SnapOf(s, p)]]

\* the part of the state that determines future behaviour up to renaming of sequence numbers and draw counts
ViewOf(s) == [s EXCEPT !.rngc = 0]
=============================================================================
