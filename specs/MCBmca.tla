------------------------------- MODULE MCBmca -------------------------------
(***************************************************************************)
(* C05: exhaustive generation of BMCA decision cases. TLC is used as an    *)
(* enumerator: every initial state is one case (own clockClass, prior port *)
(* states, the qualified foreign masters on each port, the order in which  *)
(* the host passes the ports); the single step runs the case's script      *)
(* through the instance specification, whose decision logic is the IEEE    *)
(* reference in module Bmca. The edge (script, outcome) is replayed on the *)
(* real PtpInstance.                                                       *)
(***************************************************************************)
EXTENDS Instance, Json

CONSTANTS ClsSet, StepSet, GSet, SndSet, PriorSet, Multi, SoSet, Rounds, LateSet, SndPorts, LateSecond
\* SndPorts: port numbers of the announcing master ports (two ports of one foreign clock are two masters with one clock identity);
\* LateSecond: with two candidates on a port, the second one appears only after the first BMCA round (Rounds = 2)
VARIABLES case, st, res, hist, done
vars == <<case, st, res, hist, done>>

MC_Own == 5
MC_OwnP == [p1 |-> 128, p2 |-> 128]
MC_Q0 == [class |-> 248, acc |-> 254, var |-> 65535]
MC_TP0 == [utc |-> NoUtc, leap |-> 0, tt |-> FALSE, ft |-> FALSE, ptp |-> FALSE, src |-> 160]
E2E(mo, aml) == [p2p |-> FALSE, mo |-> mo, aml |-> aml, keep |-> 1]
PCfg_A == << E2E(FALSE, AnyId), E2E(FALSE, AnyId) >>
PCfg_B == << E2E(FALSE, AnyId), E2E(TRUE, AnyId) >>
PCfg_T == << E2E(FALSE, AnyId), E2E(FALSE, AnyId), E2E(FALSE, AnyId) >>
PCfg_E == << E2E(FALSE, AnyId) >>

\* grandmaster records relative to the own attributes <<128, class, 254, 65535, 128, 5>>; each differs from the
\* default own data set in the first deciding attribute of Figure 34
G(k) == CASE k = 0 -> <<128, 248, 254, 65535, 128, 5>>    \* the own clock, relayed by somebody else
          [] k = 1 -> <<127, 248, 254, 65535, 128, 1>>    \* better by priority1
          [] k = 2 -> <<129, 6, 33, 100, 127, 1>>         \* worse by priority1 although better in everything else
          [] k = 3 -> <<128, 6, 254, 65535, 128, 9>>      \* better by clockClass
          [] k = 4 -> <<128, 248, 33, 65535, 128, 9>>     \* better by accuracy
          [] k = 5 -> <<128, 248, 254, 100, 128, 9>>      \* better by variance
          [] k = 6 -> <<128, 248, 254, 65535, 127, 9>>    \* better by priority2
          [] k = 7 -> <<128, 248, 254, 65535, 128, 1>>    \* better by identity only
          [] k = 8 -> <<128, 248, 254, 65535, 128, 9>>    \* worse by identity only
          [] k = 9 -> <<128, 127, 254, 65535, 128, 9>>    \* clockClass 127
          [] k = 10 -> <<128, 255, 254, 65535, 128, 1>>   \* clockClass 255 (slave-only clock relayed)

Tp(k) == [utc |-> IF k % 2 = 0 THEN 37 ELSE NoUtc, leap |-> IF k % 3 = 0 THEN 61 ELSE IF k % 3 = 1 THEN 59 ELSE 0,
          tt |-> k % 2 = 1, ft |-> k % 4 < 2, ptp |-> TRUE, src |-> 16 * (1 + (k % 6))]

\* a candidate: sender clock identity, grandmaster record, stepsRemoved
Cands == {[snd |-> s, sp |-> q, g |-> k, steps |-> n] : s \in SndSet, q \in SndPorts, k \in GSet, n \in StepSet}
NoCand == [snd |-> 0, sp |-> 0, g |-> 0, steps |-> 0]
PerPort == IF Multi
           THEN {<<>>} \cup {<<c>> : c \in Cands} \cup {<<cd[1], cd[2]>> : cd \in {x \in Cands \X Cands : <<x[1].snd, x[1].sp>> # <<x[2].snd, x[2].sp>>}}
           ELSE {<<>>} \cup {<<c>> : c \in Cands}
Orders == IF NP = 1 THEN {<<1>>}
          ELSE IF NP = 2 THEN {<<1, 2>>, <<2, 1>>}
          ELSE {<<1, 2, 3>>, <<3, 2, 1>>, <<2, 3, 1>>}

\* LateSet: which sets of ports hear their masters only after the first BMCA round (Rounds = 2): a port that became slave,
\* master or passive in round one is re-decided in round two against candidates that were not there before
Late_None == {{}}
Late_All == SUBSET Ports
Cases == [cls : ClsSet, so : SoSet, prior : [Ports -> PriorSet], cand : [Ports -> PerPort], ord : Orders, late : LateSet]

Ann(p, c, seq) == [e |-> "ann", p |-> p, src |-> <<c.snd, c.sp>>, seq |-> seq, g |-> G(c.g), steps |-> c.steps, tp |-> Tp(c.g + c.steps)]
RECURSIVE AnnPort(_, _, _, _)
AnnPort(p, cs, i, seq) == IF i > Len(cs) THEN <<>> ELSE <<Ann(p, cs[i], seq)>> \o AnnPort(p, cs, i + 1, seq)
RECURSIVE AnnPort2(_, _, _)
AnnPort2(p, cs, i) == IF i > Len(cs) THEN <<>> ELSE <<Ann(p, cs[Len(cs) + 1 - i], 8)>> \o AnnPort2(p, cs, i + 1)
RECURSIVE Over(_, _)
Over(f, p) == IF p > NP THEN <<>> ELSE f[p] \o Over(f, p + 1)      \* f: function from ports to event sequences

\* a prior state is reached through real calls: M by a receipt timeout; S by an earlier round (Rounds = 2)
Script(c) ==
  LET pre == (IF c.cls # 248 THEN <<[e |-> "q", q |-> [class |-> c.cls, acc |-> 254, var |-> 65535]]>> ELSE <<>>)
             \o (IF c.so THEN <<[e |-> "so", v |-> TRUE]>> ELSE <<>>)
      pri == [p \in Ports |-> IF c.prior[p] = "M" THEN <<[e |-> "t", k |-> "rcpt", p |-> p]>> ELSE <<>>]
      \* first all first Announces in port order, then the second ones in reverse candidate order
      early == [p \in Ports |-> IF p \in c.late THEN <<>> ELSE IF LateSecond /\ Len(c.cand[p]) = 2 THEN <<c.cand[p][1]>> ELSE c.cand[p]]
      lat == [p \in Ports |-> IF p \in c.late THEN c.cand[p] ELSE IF LateSecond /\ Len(c.cand[p]) = 2 THEN <<c.cand[p][2]>> ELSE <<>>]
      a1 == [p \in Ports |-> AnnPort(p, early[p], 1, 7)]
      a2 == [p \in Ports |-> AnnPort2(p, early[p], 1)]
      a3 == [p \in Ports |-> AnnPort(p, early[p], 1, 9)]
      l1 == [p \in Ports |-> AnnPort(p, lat[p], 1, 7)]
      l2 == [p \in Ports |-> AnnPort2(p, lat[p], 1)]
      round == Over(a1, 1) \o Over(a2, 1) \o <<[e |-> "bmca", ord |-> c.ord]>>
  IN pre \o Over(pri, 1) \o round
     \o (IF Rounds = 2 THEN Over(a3, 1) \o Over(l1, 1) \o Over(l2, 1) \o <<[e |-> "bmca", ord |-> c.ord]>> ELSE <<>>)

RECURSIVE Run(_, _, _, _)
Run(s, sc, i, last) == IF i > Len(sc) THEN [s |-> s, last |-> last]
                       ELSE LET r == Step(s, sc[i]) IN Run(r.s, sc, i + 1, r)

Init == case \in Cases /\ st = Init0 /\ res = [pend |-> <<>>] /\ hist = <<>> /\ done = FALSE
Next == /\ ~done
        /\ LET sc == Script(case)
               r == Run(Init0, sc, 1, [s |-> Init0])
           IN /\ st' = r.s
              /\ res' = [x \in (DOMAIN r.last) \ {"s", "dec"} |-> r.last[x]]
              /\ hist' = sc
        /\ done' = TRUE /\ UNCHANGED case
Spec == Init /\ [][Next]_vars
View == <<case, done>>
Bound == TRUE
\* plain TLC runs (no edge emission): force TLC to normalise lazily evaluated values before a state is queued
Norm == ToJson(st') # "" /\ ToJson(res') # ""
Emit == PrintT(<<"E", ToJson([hist |-> hist', exp |-> Proj(st') @@ res'])>>)

(***************************************************************************)
(* C05 on the model: what the decision must satisfy whatever the case.     *)
(***************************************************************************)
OneSlave == Cardinality({p \in Ports : st.pst[p] = "S"}) <= 1
\* the selected parent is never worse than any other qualified candidate: if a port is slave, the data set of
\* its parent's announce is not worse than any candidate registered on a port that takes part in the selection
AllCands == UNION {{[c |-> case.cand[p][i], p |-> p] : i \in 1..Len(case.cand[p])} : p \in {x \in Ports : ~PCfg[x].mo}}
DsC(x) == [gm |-> G(x.c.g), steps |-> x.c.steps, snd |-> x.c.snd, rcv |-> <<Own, x.p>>]
\* the lattice combines grandmaster records freely; a case in which one grandmaster identity appears with two different sets of
\* attributes (or the own identity with attributes that are not the own ones) is not a network that can exist, and "best" is not
\* well defined for it (the comparison then takes the same-grandmaster branch on data sets that differ in the grandmaster attributes;
\* cf. the premise of BetterTransitive in ApaBmca) - such cases are still replayed on the real code, but not judged by this invariant
Consistent ==
  /\ \A x, y \in AllCands : G(x.c.g)[6] = G(y.c.g)[6] => G(x.c.g) = G(y.c.g)
  /\ \A x \in AllCands : G(x.c.g)[6] = Own => G(x.c.g) = OwnAttr([class |-> case.cls, acc |-> 254, var |-> 65535])
ParentIsBest ==
  (done /\ Consistent /\ \E p \in Ports : st.pst[p] = "S") =>
     \E b \in AllCands : /\ st.ppi = <<b.c.snd, b.c.sp>> /\ st.pst[b.p] = "S"
                         /\ \A o \in AllCands : Rank(Compare(DsC(b), DsC(o))) \in {0, 1}
\* the outcome does not depend on the order in which the host presents the ports
OrderIndependent ==
  done => \A o \in Orders :
            LET r == Run(Init0, Script([case EXCEPT !.ord = o]), 1, [s |-> Init0])
            IN r.s.pst = st.pst /\ r.s.ppi = st.ppi /\ r.s.gm = st.gm /\ r.s.steps = st.steps /\ r.s.tp = st.tp
=============================================================================
