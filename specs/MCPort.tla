------------------------------- MODULE MCPort -------------------------------
(***************************************************************************)
(* One instance (ports as configured) driven by a parametrised alphabet of *)
(* host calls: Announces from a parent (2) and another master (9), BMCA,   *)
(* all timers, the messages of up to NSync Sync exchanges and NDelay       *)
(* Delay exchanges with the parent, master-side requests, peer-delay       *)
(* exchanges with two responders, transmit timestamps for every            *)
(* outstanding context, and "noise" frames that must have no effect.       *)
(* `Fam` selects the event families; `Prefix` is a script run before the   *)
(* exploration starts (it is part of every emitted history). Used by       *)
(* C07 C09 C10 C11 C12 C14.                                                 *)
(***************************************************************************)
EXTENDS Instance, Json

CONSTANTS Depth, Fam, Prefix, NSync, NDelay, TwoStepSet, S0, MaxRep, AnnVar, NPd
VARIABLES st, env, res, hist
vars == <<st, env, res, hist>>

MC_Own == 5
MC_OwnP == [p1 |-> 128, p2 |-> 128]
MC_OwnP2 == [p1 |-> 128, p2 |-> 120]     \* own priority1 and priority2 differ (a field mix-up between the two would show)
MC_Q0 == [class |-> 248, acc |-> 254, var |-> 65535]
MC_TP0 == [utc |-> NoUtc, leap |-> 0, tt |-> FALSE, ft |-> FALSE, ptp |-> FALSE, src |-> 160]
E2E(mo, aml) == [p2p |-> FALSE, mo |-> mo, aml |-> aml, keep |-> 1]
P2P(mo, aml) == [p2p |-> TRUE, mo |-> mo, aml |-> aml, keep |-> 1]
PCfg_E == << E2E(FALSE, AnyId) >>
PCfg_L == << E2E(FALSE, {2, 9}) >>                  \* acceptable master list {2, 9}
PCfg_P == << P2P(FALSE, AnyId) >>
PCfg_A == << E2E(FALSE, AnyId), E2E(FALSE, AnyId) >>
PCfg_AP == << E2E(FALSE, AnyId), P2P(FALSE, AnyId) >>
PCfg_PA == << P2P(FALSE, AnyId), E2E(FALSE, AnyId) >>     \* the port the events go to is the peer-to-peer one
PCfg_PP == << P2P(FALSE, AnyId), P2P(FALSE, AnyId) >>

Parent == <<2, 1>>
Other == <<9, 1>>
ParentSibling == <<2, 2>>     \* another port of the parent's clock: not the parent
RespA == <<7, 1>>       \* two-step peer-delay responder
RespB == <<8, 1>>       \* one-step peer-delay responder

\* Announce contents of the parent: variants of grandmaster record, stepsRemoved and time properties
GmP(v) == CASE v = 1 -> <<127, 248, 254, 65535, 128, 2>>       \* the parent is the grandmaster
            [] v = 2 -> <<120, 6, 33, 100, 127, 1>>            \* the parent relays grandmaster 1
            [] v = 3 -> <<127, 248, 254, 65535, 128, 2>>
            [] OTHER -> <<120, 6, 33, 100, 127, 1>>
StepsP(v) == CASE v = 1 -> 0 [] v = 2 -> 1 [] v = 3 -> 0 [] OTHER -> 254
TpP(v) == CASE v = 1 -> [utc |-> 37, leap |-> 0, tt |-> TRUE, ft |-> TRUE, ptp |-> TRUE, src |-> 32]
            [] v = 2 -> [utc |-> NoUtc, leap |-> 61, tt |-> FALSE, ft |-> TRUE, ptp |-> TRUE, src |-> 16]
            [] v = 3 -> [utc |-> -5, leap |-> 59, tt |-> TRUE, ft |-> FALSE, ptp |-> FALSE, src |-> 80]
            [] OTHER -> [utc |-> 37, leap |-> 0, tt |-> FALSE, ft |-> FALSE, ptp |-> TRUE, src |-> 160]
GmO == <<128, 248, 254, 65535, 128, 9>>

AnnP(p, seq, v) == [e |-> "ann", p |-> p, src |-> Parent, seq |-> seq, g |-> GmP(v), steps |-> StepsP(v), tp |-> TpP(v)]
AnnO(p, seq) == [e |-> "ann", p |-> p, src |-> Other, seq |-> seq, g |-> GmO, steps |-> 0, tp |-> TpP(4)]

\* scripts used as Prefix (chosen in the cfg): a port becomes slave of the parent / master by timeout
PrefixNone == <<>>
PrefixSlave == <<AnnP(1, 100, 1), AnnP(1, 101, 1), [e |-> "bmca"]>>
PrefixMaster == <<[e |-> "t", k |-> "rcpt", p |-> 1]>>
PrefixBoundary == <<AnnP(1, 100, 1), AnnP(1, 101, 1), [e |-> "bmca"], [e |-> "t", k |-> "rcpt", p |-> 2]>>
PrefixPdMaster == <<[e |-> "t", k |-> "rcpt", p |-> 1]>>

RECURSIVE RunPrefix(_, _, _)
RunPrefix(s, sc, i) == IF i > Len(sc) THEN s ELSE RunPrefix(Step(s, sc[i]).s, sc, i + 1)

Nm(base, i) == base \o "_" \o ToString(i)

Init == /\ st = RunPrefix(Init0, Prefix, 1)
        /\ env = [cnt |-> [k \in {} |-> 0], aseq |-> 102, oseq |-> 0]
        /\ res = [out |-> <<>>]
        /\ hist = Prefix

Cnt(k) == IF k \in DOMAIN env.cnt THEN env.cnt[k] ELSE 0
May(k) == Cnt(k) < MaxRep

\* ---------------------------------------------------------------- the alphabet
P1 == 1
Own1 == <<Own, 1>>
SyncEv(k, src) == [e |-> "sync", p |-> P1, src |-> src, seq |-> (S0 + k) % SeqMod, two |-> k \in TwoStepSet,
                   rx |-> Nm("t2", k), c |-> Nm("cs", k), w1 |-> Nm("w1", k), key |-> Nm("sync", k)]
FupEv(k, src) == [e |-> "fup", p |-> P1, src |-> src, seq |-> (S0 + k) % SeqMod, w1 |-> Nm("w1", k), c |-> Nm("cf", k), key |-> Nm("fup", k)]
DrespEv(j, src, req) == [e |-> "dresp", p |-> P1, src |-> src, seq |-> j - 1, req |-> req, w4 |-> Nm("w4", j), c |-> Nm("cr", j), key |-> Nm("dresp", j)]

Issued == st.nseq[P1].dreq       \* delay requests issued so far (ids 0 .. Issued-1)
PdIssued == st.nseq[P1].pdreq

CtxName(k, i) == Nm(CASE k = "Sync" -> "tS" [] k = "DelayReq" -> "t3" [] k = "PDelayReq" -> "tq" [] OTHER -> "tR", i)
CtxEvents ==   \* a transmit timestamp for every outstanding context of every port, each context once
  UNION {{[e |-> "ts", p |-> p, c |-> i, t |-> CtxName(st.ctx[p][i].k, i), key |-> "ts"] :
            i \in {x \in 1..Len(st.ctx[p]) : st.ctx[p][x].k # "used"}} : p \in Ports}

Requesters == {<<7, 1>>, <<8, 3>>}
DreqEv(r, q) == [e |-> "dreq", p |-> P1, src |-> r, seq |-> q, c |-> Nm("cq", r[1]), rx |-> Nm("tr", r[1]), f0 |-> IF r[1] = 7 THEN 0 ELSE 4,
                 minor |-> IF r[1] = 7 THEN 1 ELSE 0, key |-> Nm("dreq", r[1])]
PdreqEv(r, q) == [e |-> "pdreq", p |-> P1, src |-> r, seq |-> q, c |-> Nm("cp", r[1]), rx |-> Nm("tp", r[1]), key |-> Nm("pdreq", r[1])]

PdRespEv(j, r) == [e |-> "pdresp", p |-> P1, src |-> r, seq |-> j - 1, req |-> Own1, two |-> r = RespA,
                   w2 |-> Nm("w2" \o ToString(r[1]), j), c |-> Nm("cr" \o ToString(r[1]), j), rx |-> Nm("t4" \o ToString(r[1]), j),
                   key |-> Nm("pdresp" \o ToString(r[1]), j)]
PdFupEv(j, r) == [e |-> "pdfup", p |-> P1, src |-> r, seq |-> j - 1, req |-> Own1,
                  w3 |-> Nm("w3" \o ToString(r[1]), j), c |-> Nm("cf" \o ToString(r[1]), j), key |-> Nm("pdfup" \o ToString(r[1]), j)]

\* frames that must be ignored (C07); each carries noise |-> TRUE
Noise ==
  (IF "n_filter" \in Fam THEN
     {[e |-> "ann", p |-> P1, src |-> Parent, seq |-> env.aseq, g |-> GmP(2), steps |-> 0, dom |-> 1, noise |-> TRUE, key |-> "n_dom"],
      [e |-> "ann", p |-> P1, src |-> Parent, seq |-> env.aseq, g |-> GmP(2), steps |-> 0, sdo |-> 256, noise |-> TRUE, key |-> "n_sdo"],
      [e |-> "sync", p |-> P1, src |-> Parent, seq |-> (S0 + 1) % SeqMod, two |-> FALSE, rx |-> "t2_9", c |-> "cs_9", w1 |-> "w1_9", ver |-> 1, noise |-> TRUE, key |-> "n_ver"],
      [e |-> "sync", p |-> P1, src |-> Parent, seq |-> (S0 + 1) % SeqMod, two |-> FALSE, rx |-> "t2_9", c |-> "cs_9", w1 |-> "w1_9", dom |-> 7, noise |-> TRUE, key |-> "n_domsync"],
      [e |-> "fup", p |-> P1, src |-> Parent, seq |-> (S0 + 1) % SeqMod, w1 |-> "w1_9", c |-> "cf_9", cut |-> 40, bad |-> TRUE, noise |-> TRUE, key |-> "n_cut"],
      [e |-> "dresp", p |-> P1, src |-> Parent, seq |-> 0, req |-> Own1, w4 |-> "w4_9", c |-> "cr_9", mlen |-> 20, bad |-> TRUE, noise |-> TRUE, key |-> "n_mlen"],
      [e |-> "sig", p |-> P1, src |-> Parent, seq |-> 5, noise |-> TRUE, key |-> "n_sig"],
      [e |-> "mgmt", p |-> P1, src |-> Parent, seq |-> 5, noise |-> TRUE, key |-> "n_mgmt"]}
   ELSE {})
  \cup (IF "n_ann" \in Fam THEN
     {[e |-> "ann", p |-> P1, src |-> <<11, 1>>, seq |-> 3, g |-> <<1, 6, 33, 100, 1, 11>>, steps |-> 0, noise |-> TRUE, key |-> "n_unacc"],   \* not on the acceptable master list
      [e |-> "ann", p |-> P1, src |-> Own1, seq |-> 3, g |-> <<1, 6, 33, 100, 1, 5>>, steps |-> 0, noise |-> TRUE, key |-> "n_ownport"]}       \* bearing the port's own identity
   ELSE {})
  \cup (IF "n_slave" \in Fam THEN
     {SyncEv(k, Other) @@ [noise |-> TRUE] : k \in 1..NSync}
     \cup {FupEv(k, Other) @@ [noise |-> TRUE] : k \in 1..NSync}
     \cup {DrespEv(j, Other, Own1) @@ [noise |-> TRUE] : j \in 1..NDelay}
     \cup {SyncEv(k, ParentSibling) @@ [noise |-> TRUE] : k \in 1..NSync}
     \cup {FupEv(k, ParentSibling) @@ [noise |-> TRUE] : k \in 1..NSync}
     \cup {DrespEv(j, ParentSibling, Own1) @@ [noise |-> TRUE] : j \in 1..NDelay}
     \cup {DrespEv(j, Parent, <<Own, 2>>) @@ [noise |-> TRUE] : j \in 1..NDelay}
     \cup {DrespEv(j, Parent, <<7, 1>>) @@ [noise |-> TRUE] : j \in 1..NDelay}
     \cup {[e |-> "sync", p |-> P1, src |-> Parent, seq |-> (S0 + 1) % SeqMod, two |-> FALSE, rx |-> "t2_8", c |-> "cs_8", w1 |-> "w1_8",
            chan |-> "g", noise |-> TRUE, key |-> "n_syncgen"]}
   ELSE {})

\* ---------------------------------------------------------------- extreme inputs (C03): boundary classes of every field
\* a name "base#class" is concretised by the harness to the boundary value of that class
ValT == {"zero", "one", "sub", "max63", "max48", "sec", "secm"}
ValC == {"min", "max", "neg1", "pos1", "sub1", "nsub1", "zero"}
X(n, c) == n \o "#" \o c
LongPath(n) == [i \in 1..n |-> IF i = n THEN 2 ELSE 10 + (i % 240)]
Extreme ==
  (IF "x_ann" \in Fam THEN
     {[e |-> "ann", p |-> p, src |-> Parent, seq |-> env.aseq, g |-> GmP(1), steps |-> n, tp |-> TpP(1), key |-> "x"] : p \in Ports, n \in {254, 255, 65535}}
     \cup {[e |-> "ann", p |-> p, src |-> Parent, seq |-> env.aseq, g |-> GmP(1), steps |-> 1, tp |-> TpP(1), path |-> LongPath(n), key |-> "x"] : p \in Ports, n \in {1, 127, 128, 129, 200}}
     \cup {[e |-> "ann", p |-> p, src |-> Parent, seq |-> env.aseq, g |-> GmP(1), steps |-> 1, tp |-> TpP(1), tlvs |-> <<[ty |-> 16384, len |-> n, tag |-> IF n = 0 THEN 0 ELSE 1]>>, key |-> "x"] :
              p \in Ports, n \in {0, 954, 956, 958, 1200}}
     \cup {[e |-> "ann", p |-> p, src |-> Parent, seq |-> env.aseq, g |-> GmP(1), steps |-> 1, chan |-> "e", key |-> "x"] : p \in Ports}
   ELSE {})
  \cup (IF "x_sync" \in Fam THEN
     {[e |-> "sync", p |-> P1, src |-> Parent, seq |-> (S0 + 1) % SeqMod, two |-> tw, rx |-> X("t2_1", a), c |-> X("cs_1", b), w1 |-> X("w1_1", a), key |-> "x"] :
         tw \in BOOLEAN, a \in ValT, b \in ValC}
     \cup {[e |-> "fup", p |-> P1, src |-> Parent, seq |-> (S0 + 1) % SeqMod, w1 |-> X("w1_1", a), c |-> X("cf_1", b), key |-> "x"] : a \in ValT, b \in ValC}
     \cup {[e |-> "dresp", p |-> P1, src |-> Parent, seq |-> j - 1, req |-> Own1, w4 |-> X("w4_1", a), c |-> X("cr_1", b), key |-> "x"] : j \in 1..NDelay, a \in ValT, b \in ValC}
   ELSE {})
  \cup (IF "x_master" \in Fam THEN
     {[e |-> "dreq", p |-> P1, src |-> <<7, 1>>, seq |-> 65535, c |-> X("cq_7", b), rx |-> X("tr_7", a), key |-> "x"] : a \in ValT, b \in ValC}
     \cup {[e |-> "pdreq", p |-> P1, src |-> <<7, 1>>, seq |-> 65535, c |-> X("cp_7", b), rx |-> X("tp_7", a), key |-> "x"] : a \in ValT, b \in ValC}
   ELSE {})
  \cup (IF "x_pd" \in Fam THEN
     {[e |-> "pdresp", p |-> P1, src |-> r, seq |-> j - 1, req |-> Own1, two |-> r = RespA, w2 |-> X("w2_1", a), c |-> X("cr_1", b), rx |-> X("t4_1", a2), key |-> "x"] :
         j \in {x \in 1..NPd : x <= PdIssued}, r \in {RespA, RespB}, a \in {"zero", "max48"}, a2 \in {"zero", "max63", "sub"}, b \in {"min", "max", "zero"}}
     \cup {[e |-> "pdfup", p |-> P1, src |-> RespA, seq |-> j - 1, req |-> Own1, w3 |-> X("w3_1", a), c |-> X("cf_1", b), key |-> "x"] :
         j \in {x \in 1..NPd : x <= PdIssued}, a \in {"zero", "max48"}, b \in {"min", "max", "zero"}}
   ELSE {})
  \cup (IF "x_ts" \in Fam THEN
     UNION {{[e |-> "ts", p |-> p, c |-> i, t |-> X("tS_1", a), key |-> "ts"] : i \in {x \in 1..Len(st.ctx[p]) : st.ctx[p][x].k # "used"}, a \in ValT} : p \in Ports}
   ELSE {})

Events ==
  Extreme \cup
  (IF "annP" \in Fam THEN {AnnP(p, env.aseq, v) @@ [key |-> "annP"] : p \in Ports, v \in AnnVar} ELSE {})
  \cup (IF "annO" \in Fam THEN {AnnO(p, env.oseq) @@ [key |-> "annO"] : p \in Ports} ELSE {})
  \cup (IF "bmca" \in Fam THEN {[e |-> "bmca", key |-> "bmca"]} ELSE {})
  \cup {[e |-> "t", k |-> k, p |-> p, key |-> "t" \o k] : k \in {x \in {"ann", "sync", "dreq", "rcpt", "filt"} : ("t" \o x) \in Fam}, p \in Ports}
  \cup (IF "so" \in Fam THEN {[e |-> "so", v |-> v, key |-> "so"] : v \in BOOLEAN} ELSE {})
  \cup (IF "q" \in Fam THEN {[e |-> "q", q |-> [class |-> c, acc |-> 33, var |-> 100], key |-> "q"] : c \in {6, 187}} ELSE {})
  \cup (IF "sync" \in Fam THEN {SyncEv(k, Parent) : k \in 1..NSync} \cup {FupEv(k, Parent) : k \in {x \in 1..NSync : x \in TwoStepSet}} ELSE {})
  \cup (IF "dresp" \in Fam THEN {DrespEv(j, Parent, Own1) : j \in {x \in 1..NDelay : x <= Issued}} ELSE {})
  \cup (IF "ts" \in Fam THEN CtxEvents ELSE {})
  \cup (IF "dreq" \in Fam THEN {DreqEv(r, q) : r \in Requesters, q \in {0, 65535}} ELSE {})
  \cup (IF "pdreq" \in Fam THEN {PdreqEv(r, q) : r \in Requesters, q \in {7}} ELSE {})
  \cup (IF "pd" \in Fam THEN {PdRespEv(j, r) : j \in {x \in 1..NPd : x <= PdIssued}, r \in {RespA, RespB}}
                              \cup {PdFupEv(j, RespA) : j \in {x \in 1..NPd : x <= PdIssued}} ELSE {})
  \cup (IF "pdfupB" \in Fam THEN {PdFupEv(j, RespB) : j \in {x \in 1..NPd : x <= PdIssued}} ELSE {})
  \cup Noise

\* bounds on repetitions: a delay/peer-delay timer may fire NDelay / NPd times, everything keyed at most MaxRep times
Allowed(ev) ==
  /\ (ev.e = "t" /\ ev.k = "dreq") => (IF PCfg[ev.p].p2p THEN st.nseq[ev.p].pdreq < NPd ELSE st.nseq[ev.p].dreq < NDelay)
  /\ ev.key \notin {"ts", "bmca", "tann", "tsync", "trcpt", "tfilt", "tdreq", "so", "q", "annP", "annO", "x"} => May(ev.key)

EnvStep(ev) ==
  [env EXCEPT !.cnt = IF ev.key \in {"ts", "bmca", "tann", "tsync", "trcpt", "tfilt", "tdreq", "so", "q", "annP", "annO", "x"} THEN @
                      ELSE [k \in (DOMAIN @) \cup {ev.key} |-> IF k = ev.key THEN Cnt(k) + 1 ELSE @[k]],
              !.aseq = IF ev.key = "annP" \/ (ev.key = "x" /\ ev.e = "ann") THEN (@ + 1) % SeqMod ELSE @,
              !.oseq = IF ev.key = "annO" THEN (@ + 1) % SeqMod ELSE @]

Strip(ev) == [k \in (DOMAIN ev) \ {"key"} |-> ev[k]]

Next == \E ev \in Events :
          /\ Allowed(ev)
          /\ LET r == Step(st, Strip(ev)) IN
             /\ st' = r.s
             /\ res' = [x \in (DOMAIN r) \ {"s", "dec"} |-> r[x]]
             /\ env' = EnvStep(ev)
             /\ hist' = Append(hist, Strip(ev))
Spec == Init /\ [][Next]_vars
View == <<ViewOf(st), env>>
Bound == Len(hist) < Depth + Len(Prefix)
Norm == ToJson(st') # "" /\ ToJson(res') # ""
Emit == PrintT(<<"E", ToJson([hist |-> hist', exp |-> Proj(st') @@ res'])>>)

Last == hist[Len(hist)]
LastIs(e) == Len(hist) > Len(Prefix) /\ Last.e = e

(***************************************************************************)
(* C09: every measurement uses the terms of ONE exchange, with the right   *)
(* signs; offset = raw - mean delay; delay = (last raw sync - raw delay)/2 *)
(***************************************************************************)
Meas == IF "flt" \in DOMAIN res THEN {res.flt[i] : i \in {j \in 1..Len(res.flt) : res.flt[j].k = "meas"}} ELSE {}
SyncForm(k) == FSub(FSub(FSub(V(Nm("t2", k)), V(Nm("cs", k))),
                         IF k \in TwoStepSet THEN FAdd(V(Nm("w1", k)), V(Nm("cf", k))) ELSE V(Nm("w1", k))), V("asym"))
DelayForm(j, i) == FSub(FSub(V(Nm("t3", i)), FSub(V(Nm("w4", j)), V(Nm("cr", j)))), V("asym"))
SingleExchange ==
  \A m \in Meas :
    /\ ~IsNoneV(m.rs) => \E k \in 1..NSync : m.rs = SyncForm(k) /\ m.et = FSub(V(Nm("t2", k)), V(Nm("cs", k)))
    /\ ~IsNoneV(m.rd) => \E j \in 1..NDelay : \E i \in 1..Len(st.ctx[1]) : m.rd = DelayForm(j, i) /\ m.et = V(Nm("t3", i))
    /\ (~IsNoneV(m.rs) /\ ~IsNoneV(m.off)) => m.off.l = m.rs
    /\ (~IsNoneV(m.rd) /\ ~IsNoneV(m.dly)) => (m.dly.op = "half" /\ m.dly.x.r = m.rd /\ \E k \in 1..NSync : m.dly.x.l = SyncForm(k))
\* the request whose transmit time is used is the one the response answers: context i was issued for delay id j-1
DelayIdsMatch ==
  \A m \in Meas : ~IsNoneV(m.rd) =>
     \E j \in 1..NDelay : \E i \in 1..Len(st.ctx[1]) : m.rd = DelayForm(j, i) /\ st.ctx[1][i].k = "used" /\ st.ctx[1][i].id = j - 1

(***************************************************************************)
(* C14: peer delay                                                         *)
(***************************************************************************)
PdForm(j, r, i) ==
  LET rn == ToString(r[1])
      t4 == FSub(V(Nm("t4" \o rn, j)), V(Nm("cr" \o rn, j)))
      t2 == V(Nm("w2" \o rn, j))
      t3 == IF r = RespA THEN FAdd(V(Nm("w3" \o rn, j)), V(Nm("cf" \o rn, j))) ELSE V(Nm("w2" \o rn, j))
  IN FHalf(FSub(FSub(t4, V(Nm("tq", i))), FSub(t3, t2)))
OneResponder ==
  \A m \in Meas : ~IsNoneV(m.pdly) =>
     \E j \in 1..NPd : \E r \in {RespA, RespB} : \E i \in 1..Len(st.ctx[1]) :
        m.pdly = PdForm(j, r, i) /\ st.ctx[1][i].id = j - 1
\* a response or follow-up for the current or the just-completed request from a different responder makes the port faulty
SecondRespOK ==
  LET ev == hist'[Len(hist')] IN
  (/\ ev.e \in {"pdresp", "pdfup"} /\ ev.req = Own1 /\ "noise" \notin DOMAIN ev
   /\ \/ (st.pd[1].st = "P" /\ st.pd[1].id = ev.seq /\ st.pd[1].r # ev.src)
      \/ (st.pd[1].st = "M" /\ st.pd[1].id = ev.seq /\ st.pd[1].r # NoPid /\ st.pd[1].r # ev.src))
  => (st'.pst[1] = "F" /\ \A i \in 1..Len(res'.flt) : res'.flt[i].k # "meas")
SecondResponderFaults == [][SecondRespOK]_vars
\* while faulty: no master-role frame, no steering of the clock
FaultyInertOK ==
  st.pst[1] = "F" =>
    /\ ("out" \in DOMAIN res' => \A i \in 1..Len(res'.out) : res'.out[i].a \in {"E", "G"} => res'.out[i].t \notin {"Announce", "Sync", "FollowUp", "DelayResp"})
    /\ \A i \in 1..Len(res'.clk) : res'.clk[i][1] = 1 => (res'.clk[i][2] = "freq" /\ res'.clk[i][3] = 0)
FaultyIsInert == [][FaultyInertOK]_vars
\* faulty is left only by a completed exchange with a single responder (a peer-delay measurement)
LeavesFaultyOK == (st.pst[1] = "F" /\ st'.pst[1] # "F") => \E i \in 1..Len(res'.flt) : res'.flt[i].k = "meas" /\ ~IsNoneV(res'.flt[i].pdly)
LeavesOnlyByCleanExchange == [][LeavesFaultyOK]_vars

(***************************************************************************)
(* C07: noise has no effect (one-run form of the non-interference claim)   *)
(***************************************************************************)
NoiseOK == ("noise" \in DOMAIN hist'[Len(hist')]) => (ViewOf(st') = ViewOf(st) /\ st'.rngc = st.rngc /\ res'.out = <<>> /\ res'.clk = <<>> /\ res'.flt = <<>>)
NoiseInert == [][NoiseOK]_vars

(***************************************************************************)
(* C10: master side                                                        *)
(***************************************************************************)
OutFrames(r) == IF "out" \in DOMAIN r THEN {r.out[i] : i \in {j \in 1..Len(r.out) : r.out[j].a \in {"E", "G"}}} ELSE {}
OneEventSend == "out" \in DOMAIN res => Cardinality({i \in 1..Len(res.out) : res.out[i].a = "E"}) <= 1
\* a Follow_Up is produced exactly by the transmit timestamp of a Sync context, with that Sync's id, once per Sync
FollowUpOK ==
  LET ev == hist'[Len(hist')] IN
  \A f \in OutFrames(res') : f.t = "FollowUp" =>
     ev.e = "ts" /\ st.ctx[ev.p][ev.c].k = "Sync" /\ f.seq = st.ctx[ev.p][ev.c].id /\ st'.ctx[ev.p][ev.c].k = "used"
FollowUpOnce == [][FollowUpOK]_vars
EchoOK ==
  LET ev == hist'[Len(hist')] IN
  \A f \in OutFrames(res') :
     /\ f.t = "DelayResp" => (ev.e = "dreq" /\ f.seq = ev.seq /\ f.req = ev.src)
     /\ f.t = "PdelayResp" => (ev.e = "pdreq" /\ f.seq = ev.seq /\ f.req = ev.src)
     /\ f.t = "PdelayRespFup" => (ev.e = "ts" /\ st.ctx[ev.p][ev.c].k = "PDelayResp" /\ f.seq = st.ctx[ev.p][ev.c].id /\ f.req = st.ctx[ev.p][ev.c].req)
Echo == [][EchoOK]_vars
SeqPlusOneOK ==
  \A f \in OutFrames(res') :
     /\ f.t = "Announce" => (f.seq = st.nseq[f.src[2]].ann /\ st'.nseq[f.src[2]].ann = (f.seq + 1) % SeqMod)
     /\ f.t = "Sync" => (f.seq = st.nseq[f.src[2]].sync /\ st'.nseq[f.src[2]].sync = (f.seq + 1) % SeqMod)
     /\ f.t = "DelayReq" => (f.seq = st.nseq[f.src[2]].dreq /\ st'.nseq[f.src[2]].dreq = (f.seq + 1) % SeqMod)
     /\ f.t = "PdelayReq" => (f.seq = st.nseq[f.src[2]].pdreq /\ st'.nseq[f.src[2]].pdreq = (f.seq + 1) % SeqMod)
SeqPlusOne == [][SeqPlusOneOK]_vars

(***************************************************************************)
(* C11: Announces advertise the data sets; the data sets follow the parent *)
(***************************************************************************)
AnnounceOK ==
  \A f \in OutFrames(res') : f.t = "Announce" =>
     /\ f.gm = AttrRec(st.gm) /\ f.steps = st.steps /\ f.tp = st.tp
\* own attributes and stepsRemoved 0 after a BMCA that left no slave port (the instance is grandmaster)
GMOwn == (LastIs("bmca") /\ (\A p \in Ports : st.pst[p] # "S") /\ (\E p \in Ports : st.pst[p] = "M")) =>
            (st.gm = OwnAttr(st.q) /\ st.steps = 0 /\ st.ppi = <<Own, 0>>)
\* while a port is slave: the attributes LAST announced by the parent (on that port), stepsRemoved + 1
AnnFromParent(i, sp) == hist[i].e = "ann" /\ hist[i].src = st.ppi /\ hist[i].p = sp /\ "noise" \notin DOMAIN hist[i]
GMParent == \A sp \in Ports : st.pst[sp] = "S" =>
              LET I == {i \in 1..Len(hist) : AnnFromParent(i, sp)} IN
              /\ I # {}
              /\ LET i == CHOOSE x \in I : \A y \in I : y <= x IN
                 st.gm = hist[i].g /\ st.steps = hist[i].steps + 1 /\ st.tp = hist[i].tp
AnnounceContent == [][AnnounceOK]_vars

(***************************************************************************)
(* C12 (safety half): a port that needs a timer to progress has it armed.  *)
(* `armed` is derived from the history of returned actions (the host arms  *)
(* exactly what was requested; a timer that fires is disarmed).            *)
(***************************************************************************)
=============================================================================
