---------------------------- MODULE TraceInstance ----------------------------
(***************************************************************************)
(* Binding B for the instance specification: executions recorded from the  *)
(* real code (harness/src/bin/record.rs: long seeded random histories of   *)
(* host calls on a real PtpInstance, one ndjson line per public call at    *)
(* its return, with the abstract arguments and the projected post-state)   *)
(* are accepted iff every step is the step the specification takes:        *)
(*     st' = Step(st, event).s                                             *)
(* and the logged observation equals the projection of st' - port states,  *)
(* data sets, the foreign master lists with sequence ids and ages, the     *)
(* multiport-disable ages, the sequence counters, the kinds of the         *)
(* returned actions, which port touched the clock. The property invariants *)
(* below are INVARIANTs of the trace configuration, so they are evaluated  *)
(* on every state of every observed execution.                             *)
(***************************************************************************)
EXTENDS Instance, Json, IOUtils

Rec == ndJsonDeserialize(IOEnv.TRACE)

TI_Own == 5
TI_OwnP == [p1 |-> 128, p2 |-> 128]
TI_Q0 == [class |-> 248, acc |-> 254, var |-> 65535]
TI_TP0 == [utc |-> NoUtc, leap |-> 0, tt |-> FALSE, ft |-> FALSE, ptp |-> FALSE, src |-> 160]
E2E(mo, aml) == [p2p |-> FALSE, mo |-> mo, aml |-> aml, keep |-> 1]
P2P(mo, aml) == [p2p |-> TRUE, mo |-> mo, aml |-> aml, keep |-> 1]
TI_PCfg_A == << E2E(FALSE, AnyId), E2E(FALSE, AnyId) >>
TI_PCfg_B == << E2E(FALSE, AnyId), E2E(TRUE, AnyId) >>
TI_PCfg_D == << E2E(FALSE, {2, 9}), P2P(FALSE, AnyId), E2E(TRUE, AnyId) >>

VARIABLES st, l
tvars == <<st, l>>

\* what is logged of a returned action: kind, and for timers which one and the duration class, for frames type and sequence id
AbsAct(a) == IF a.a = "T" THEN [a |-> "T", k |-> a.k, d |-> a.d]
             ELSE IF a.a = "F" THEN [a |-> "F", ty |-> a.tlv.ty, len |-> a.tlv.len]
             ELSE [a |-> a.a, t |-> a.t, seq |-> a.seq]
AbsOut(o) == [i \in 1..Len(o) |-> AbsAct(o[i])]
AbsClk(c) == [i \in 1..Len(c) |-> <<c[i][1], c[i][2]>>]
FmlOf(s, p) == [i \in 1..Len(s.fml[p]) |->
                  [id |-> s.fml[p][i].id,
                   msgs |-> [k \in 1..Len(s.fml[p][i].msgs) |-> [seq |-> s.fml[p][i].msgs[k].c.seq, age |-> s.fml[p][i].msgs[k].age, steps |-> s.fml[p][i].msgs[k].c.steps]]]]

\* a restart of the recorded system (several runs are concatenated into one trace)
TReset == /\ l <= Len(Rec) /\ Rec[l].e = "reset"
          /\ st' = Init0 /\ l' = l + 1

TCall ==
  /\ l <= Len(Rec) /\ Rec[l].e # "reset"
  /\ LET r == Rec[l]
         res == Step(st, r.ev)
         s2 == res.s
     IN /\ st' = s2
        /\ r.obs.pst = s2.pst
        /\ r.obs.ppi = s2.ppi
        /\ r.obs.gm = s2.gm
        /\ r.obs.steps = s2.steps
        /\ r.obs.tp = s2.tp
        /\ r.obs.path = s2.path
        /\ r.obs.so = s2.so
        /\ r.obs.mpd = s2.mpd
        /\ r.obs.nseq = [p \in Ports |-> <<s2.nseq[p].ann, s2.nseq[p].sync, s2.nseq[p].dreq, s2.nseq[p].pdreq>>]
        /\ r.obs.fml = [p \in Ports |-> FmlOf(s2, p)]
        /\ r.obs.rng = s2.rngc
        /\ (IF "pend" \in DOMAIN res THEN r.obs.pend = [p \in Ports |-> AbsOut(res.pend[p])] ELSE r.obs.out = AbsOut(res.out))
        /\ r.obs.clk = AbsClk(res.clk)
  /\ l' = l + 1

TInit == st = Init0 /\ l = 1
TNext == TReset \/ TCall
TSpec == TInit /\ [][TNext]_tvars
Accepted == IF TLCGet("stats").diameter - 1 = Len(Rec) THEN TRUE
            ELSE Print(<<"REJECTED at line", TLCGet("stats").diameter, Rec[TLCGet("stats").diameter]>>, FALSE)

\* ---------------------------------------------------------------- properties evaluated on every observed state
OneSlave == Cardinality({p \in Ports : st.pst[p] = "S"}) <= 1                       \* C08
MasterOnlyNeverSlave == \A p \in Ports : PCfg[p].mo => st.pst[p] # "S"              \* C08
ParentQualified ==                                                                   \* C06: the parent of a slave port is in its foreign master list
  \A p \in Ports : st.pst[p] = "S" => (st.rm[p] = st.ppi /\ st.ppi[1] # Own)
=============================================================================
