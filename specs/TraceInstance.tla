---------------------------- MODULE TraceInstance ----------------------------
(***************************************************************************)
(* Binding B for the instance specification: executions recorded from the  *)
(* real code (harness/src/bin/record.rs: long seeded random histories of   *)
(* host calls on a real PtpInstance, one ndjson line per public call at    *)
(* its return, with the abstract arguments and the projected post-state)   *)
(* are accepted iff every step is the step the specification takes:        *)
(*     st' = Step(st, event).s                                             *)
(* and the logged observation equals the projection of st' - port states,  *)
(* data sets, the foreign master lists with sequence ids and ages, the     *)
(* multiport-disable ages, the sequence counters, the kinds of the         *)
(* returned actions, which port touched the clock. The property invariants *)
(* below are INVARIANTs of the trace configuration, so they are evaluated  *)
(* on every state of every observed execution.                             *)
(***************************************************************************)
EXTENDS Instance, Json, IOUtils

Rec == ndJsonDeserialize(IOEnv.TRACE)

TI_Own == 5
TI_OwnP == [p1 |-> 128, p2 |-> 128]
TI_OwnP_P == [p1 |-> 128, p2 |-> 120]     \* record variant P: own priority1 and priority2 differ
TI_Q0 == [class |-> 248, acc |-> 254, var |-> 65535]
TI_TP0 == [utc |-> NoUtc, leap |-> 0, tt |-> FALSE, ft |-> FALSE, ptp |-> FALSE, src |-> 160]
E2E(mo, aml) == [p2p |-> FALSE, mo |-> mo, aml |-> aml, keep |-> 1]
P2P(mo, aml) == [p2p |-> TRUE, mo |-> mo, aml |-> aml, keep |-> 1]
TI_PCfg_A == << E2E(FALSE, AnyId), E2E(FALSE, AnyId) >>
TI_PCfg_B == << E2E(FALSE, AnyId), E2E(TRUE, AnyId) >>
TI_PCfg_K == << E2E(FALSE, AnyId), [E2E(FALSE, AnyId) EXCEPT !.keep = 2] >>   \* record variant K: port 2 announces at twice the BMCA interval
TI_PCfg_D == << E2E(FALSE, {2, 9}), P2P(FALSE, AnyId), E2E(TRUE, AnyId) >>

VARIABLES st, l
tvars == <<st, l>>

\* what is logged of a returned action: kind, and for timers which one and the duration class, for frames type and sequence id
AbsAct(a) == IF a.a = "T" THEN [a |-> "T", k |-> a.k, d |-> a.d]
             ELSE IF a.a = "F" THEN [a |-> "F", ty |-> a.tlv.ty, len |-> a.tlv.len]
             ELSE [a |-> a.a, t |-> a.t, seq |-> a.seq]
                  @@ (IF a.t = "Announce" THEN [gm |-> a.gm, steps |-> a.steps, tp |-> a.tp, tlvs |-> a.tlvs] ELSE <<>>)
                  @@ (IF "req" \in DOMAIN a THEN [req |-> a.req] ELSE <<>>)
AbsOut(o) == [i \in 1..Len(o) |-> AbsAct(o[i])]
AbsClk(c) == [i \in 1..Len(c) |-> <<c[i][1], c[i][2]>>]
AbsFlt(f) == [i \in 1..Len(f) |-> IF f[i].k = "meas" THEN [p |-> f[i].p, k |-> "meas", off |-> ~IsNoneV(f[i].off), dly |-> ~IsNoneV(f[i].dly), pdly |-> ~IsNoneV(f[i].pdly)]
                                  ELSE [p |-> f[i].p, k |-> f[i].k]]
FmlOf(s, p) == [i \in 1..Len(s.fml[p]) |->
                  [id |-> s.fml[p][i].id,
                   msgs |-> [k \in 1..Len(s.fml[p][i].msgs) |-> [seq |-> s.fml[p][i].msgs[k].c.seq, age |-> s.fml[p][i].msgs[k].age \div PCfg[p].keep, steps |-> s.fml[p][i].msgs[k].c.steps]]]]

\* a restart of the recorded system (several runs are concatenated into one trace)
TReset == /\ l <= Len(Rec) /\ Rec[l].e = "reset"
          /\ st' = Init0 /\ l' = l + 1

\* the fields in which a logged observation departs from the specification's step (named as in the edge replay, so that
\* the same ownership rule decides which property a departure belongs to)
M(name, differs) == IF differs THEN {name} ELSE {}
ActMis(o, e) ==
  IF o = e THEN {}
  ELSE IF o.a # e.a THEN {"out.len"}
  ELSE IF e.a = "T" THEN {"out.T"}
  ELSE IF e.a = "F" THEN {"out.F"}
  ELSE IF o.t # e.t \/ DOMAIN o # DOMAIN e THEN {"out." \o e.t}
  ELSE {"out." \o e.t \o "." \o f : f \in {x \in DOMAIN e : o[x] # e[x]}}
SeqMis(o, e) == IF Len(o) # Len(e) THEN {"out.len"} ELSE UNION {ActMis(o[i], e[i]) : i \in 1..Len(e)}
Mismatch(r, s2, res) ==
  M("pst", r.obs.pst # s2.pst) \cup M("ppi", r.obs.ppi # s2.ppi) \cup M("gm", r.obs.gm # s2.gm) \cup M("steps", r.obs.steps # s2.steps)
  \cup M("tp", r.obs.tp # s2.tp) \cup M("path", r.obs.path # s2.path) \cup M("dds.so", r.obs.so # s2.so) \cup M("snap.mpd", r.obs.mpd # [p \in Ports |-> IF s2.mpd[p] = -1 THEN -1 ELSE s2.mpd[p] \div PCfg[p].keep])
  \cup M("snap.nseq", r.obs.nseq # [p \in Ports |-> <<s2.nseq[p].ann, s2.nseq[p].sync, s2.nseq[p].dreq, s2.nseq[p].pdreq>>])
  \cup M("snap.fml", r.obs.fml # [p \in Ports |-> FmlOf(s2, p)])
  \cup M("snap.rm", r.obs.rm # [p \in Ports |-> IF s2.pst[p] = "S" THEN s2.rm[p] ELSE NoPid])
  \cup M("rng", r.obs.rng # s2.rngc)
  \cup (IF "pend" \in DOMAIN res
        THEN (IF "pend" \in DOMAIN r.obs THEN M("pend", r.obs.pend # [p \in Ports |-> AbsOut(res.pend[p])]) ELSE {"pend"})
        ELSE (IF "out" \in DOMAIN r.obs THEN SeqMis(r.obs.out, AbsOut(res.out)) ELSE {"out.len"}))
  \cup M("clk", r.obs.clk # AbsClk(res.clk))
  \cup M("flt", r.obs.flt # AbsFlt(res.flt))

TCall ==
  /\ l <= Len(Rec) /\ Rec[l].e # "reset"
  /\ LET r == Rec[l]
         res == Step(st, r.ev)
         mm == Mismatch(r, res.s, res)
     IN IF mm = {} THEN st' = res.s /\ l' = l + 1
        ELSE PrintT(<<"MISMATCH", l, mm>>) /\ FALSE

TInit == st = Init0 /\ l = 1
TNext == TReset \/ TCall
TSpec == TInit /\ [][TNext]_tvars
Accepted == IF TLCGet("stats").diameter - 1 = Len(Rec) THEN TRUE
            ELSE Print(<<"REJECTED at line", TLCGet("stats").diameter, Rec[TLCGet("stats").diameter]>>, FALSE)

\* ---------------------------------------------------------------- properties evaluated on every observed state
OneSlave == Cardinality({p \in Ports : st.pst[p] = "S"}) <= 1                       \* C08
MasterOnlyNeverSlave == \A p \in Ports : PCfg[p].mo => st.pst[p] # "S"              \* C08
ParentQualified ==                                                                   \* C06: the parent of a slave port is in its foreign master list
  \A p \in Ports : st.pst[p] = "S" => (st.rm[p] = st.ppi /\ st.ppi[1] # Own)
=============================================================================
