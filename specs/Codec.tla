-------------------------------- MODULE Codec --------------------------------
(***************************************************************************)
(* C04: the PTPv2 wire format of IEEE 1588-2019 Clause 13 over sequences   *)
(* of octets (1-based), written from the standard, independent of the      *)
(* implementation: which buffers are messages (DecodeOk), and the          *)
(* canonical re-encoding of a message (Canon: the message's own octets     *)
(* with reserved positions cleared and the deprecated controlField set     *)
(* from the message type). TLC evaluates both over enumerated families of  *)
(* buffers; every vector is fed to statime's parser and serialiser.        *)
(***************************************************************************)
EXTENDS Naturals, Integers, Sequences, FiniteSets, TLC, Json

BE16(b, i) == b[i] * 256 + b[i + 1]
BodyLen(t) == CASE t \in {0, 1, 8} -> 10                   \* Sync, Delay_Req, Follow_Up (13.6, 13.7)
                [] t \in {2, 3, 9, 10} -> 20               \* Pdelay_Req, Pdelay_Resp, Delay_Resp, Pdelay_Resp_Follow_Up (13.8-13.11)
                [] t = 11 -> 30                            \* Announce (13.5)
                [] t = 12 -> 10                            \* Signaling (13.12)
                [] t = 13 -> 14                            \* Management (13.13)
                [] OTHER -> 0
KnownType(t) == t \in {0, 1, 2, 3, 8, 9, 10, 11, 12, 13}
Control(t) == CASE t = 0 -> 0 [] t = 1 -> 1 [] t = 8 -> 2 [] t = 9 -> 3 [] t = 13 -> 4 [] OTHER -> 5   \* Table 42

\* TLV suffix (14.1): (type 2, length 2, value[length], length even) repeated, tiling the rest of the message exactly
RECURSIVE TlvOk(_, _, _)
TlvOk(b, i, end) ==
  IF i > end THEN TRUE
  ELSE IF end - i + 1 < 4 THEN FALSE
  ELSE LET len == BE16(b, i + 2) IN
       IF len % 2 = 1 THEN FALSE
       ELSE IF i + 4 + len - 1 > end THEN FALSE
       ELSE TlvOk(b, i + 4 + len, end)

DecodeOk(b) ==
  /\ Len(b) >= 34
  /\ KnownType(b[1] % 16)
  /\ LET ml == BE16(b, 3)  t == b[1] % 16 IN
     /\ ml >= 34 /\ ml <= Len(b)
     /\ ml >= 34 + BodyLen(t)
     /\ TlvOk(b, 34 + BodyLen(t) + 1, ml)

\* clockAccuracy (Table 5) and management actionField (Table 57): defined values
AccDefined(v) == (v >= 23 /\ v <= 49) \/ (v >= 128 /\ v <= 254)
\* flagField: octet 0 bits 0,1,2,5,6 and octet 1 bits 0..6 are defined (Table 37)
Flag0(v) == (v % 8) + ((v \div 32) % 4) * 32
Flag1(v) == v % 128

Canon(b) ==
  LET ml == BE16(b, 3)  t == b[1] % 16 IN
  [i \in 1..ml |->
     CASE i = 7 -> Flag0(b[7])
       [] i = 8 -> Flag1(b[8])
       [] i \in 17..20 -> 0                                 \* messageTypeSpecific: reserved for every message type handled
       [] i = 33 -> Control(t)
       [] t = 2 /\ i \in 45..54 -> 0                         \* Pdelay_Req: reserved
       [] t = 11 /\ i = 47 -> 0                              \* Announce: reserved octet after currentUtcOffset
       [] t = 13 /\ i = 47 -> b[47] % 16                     \* Management: reserved nibble | actionField
       [] t = 13 /\ i = 48 -> 0                              \* Management: reserved
       [] OTHER -> b[i]]

\* positions whose VALUE is a reserved member of an enumeration: statime does not preserve those (recorded finding)
ReservedValueAt(b) ==
  LET t == b[1] % 16 IN
  (IF t = 11 /\ ~AccDefined(b[50]) THEN {50} ELSE {}) \cup (IF t = 13 /\ b[47] % 16 > 4 THEN {47} ELSE {})

(***************************************************************************)
(* Families of buffers                                                     *)
(***************************************************************************)
Pat(n, k) == [i \in 1..n |-> (i * 7 + k) % 256]
Rep(n, v) == [i \in 1..n |-> v]
Hdr(t, ml, h) ==   \* h: record of overrides
  <<((IF "sdohi" \in DOMAIN h THEN h.sdohi ELSE 0) * 16 + t), (IF "ver" \in DOMAIN h THEN h.ver ELSE 18), ml \div 256, ml % 256,
    (IF "dom" \in DOMAIN h THEN h.dom ELSE 0), (IF "sdolo" \in DOMAIN h THEN h.sdolo ELSE 0),
    (IF "f0" \in DOMAIN h THEN h.f0 ELSE 0), (IF "f1" \in DOMAIN h THEN h.f1 ELSE 0)>>
  \o (IF "corr" \in DOMAIN h THEN h.corr ELSE Rep(8, 0))
  \o (IF "mts" \in DOMAIN h THEN h.mts ELSE Rep(4, 0))
  \o (IF "src" \in DOMAIN h THEN h.src ELSE <<1, 2, 3, 4, 5, 6, 7, 8, 0, 1>>)
  \o <<(IF "seq" \in DOMAIN h THEN h.seq \div 256 ELSE 18), (IF "seq" \in DOMAIN h THEN h.seq % 256 ELSE 52),
       (IF "ctl" \in DOMAIN h THEN h.ctl ELSE Control(t)), (IF "logi" \in DOMAIN h THEN h.logi ELSE 0)>>
Tlv(ty, val) == <<ty \div 256, ty % 256, Len(val) \div 256, Len(val) % 256>> \o val
Msg(t, h, body, suffix) == Hdr(t, 34 + Len(body) + Len(suffix), h) \o body \o suffix
Types == {0, 1, 2, 3, 8, 9, 10, 11, 12, 13}
AllTypeNibbles == 0..15
NoH == [x \in {} |-> 0]
\* default bodies carry defined enumeration values (clockAccuracy 0x21, actionField 2)
Body0(t) == IF t = 11 THEN [Pat(30, 11) EXCEPT ![16] = 33] ELSE IF t = 13 THEN [Pat(14, 13) EXCEPT ![13] = 2] ELSE Pat(BodyLen(t), t)

CONSTANTS Sweep8, Sweep16      \* the values swept through 8-bit and 16-bit fields
AllOctets == 0..255
\* every header field, one at a time, on every message type
HeaderFamily ==
  UNION {
    {Msg(t, [sdohi |-> v % 16], Body0(t), <<>>) : v \in 0..15} \cup
    {Msg(t, [ver |-> v], Body0(t), <<>>) : v \in Sweep8} \cup
    {Msg(t, [dom |-> v], Body0(t), <<>>) : v \in Sweep8} \cup
    {Msg(t, [sdolo |-> v], Body0(t), <<>>) : v \in Sweep8} \cup
    {Msg(t, [f0 |-> v], Body0(t), <<>>) : v \in Sweep8} \cup
    {Msg(t, [f1 |-> v], Body0(t), <<>>) : v \in Sweep8} \cup
    {Msg(t, [ctl |-> v], Body0(t), <<>>) : v \in Sweep8} \cup
    {Msg(t, [logi |-> v], Body0(t), <<>>) : v \in Sweep8} \cup
    {Msg(t, [seq |-> v], Body0(t), <<>>) : v \in Sweep16} \cup
    {Msg(t, [corr |-> c], Body0(t), <<>>) : c \in {Rep(8, 0), Rep(8, 255), <<127, 255, 255, 255, 255, 255, 255, 255>>, <<128, 0, 0, 0, 0, 0, 0, 0>>, Pat(8, 3)}} \cup
    {Msg(t, [mts |-> c], Body0(t), <<>>) : c \in {Rep(4, 255), Pat(4, 9)}} \cup
    {Msg(t, [src |-> c], Body0(t), <<>>) : c \in {Rep(10, 0), Rep(10, 255), Pat(10, 1)}}
    : t \in Types}
\* unknown message types
TypeFamily == {Msg(t, NoH, Pat(10, 1), <<>>) : t \in AllTypeNibbles \ Types}
\* bodies: every octet of every body at 0, 255 and a pattern; every value of the one-octet fields of Announce and Management
BodyFamily ==
  UNION {{Msg(t, NoH, Rep(BodyLen(t), 0), <<>>), Msg(t, NoH, Rep(BodyLen(t), 255), <<>>), Msg(t, NoH, Pat(BodyLen(t), 100), <<>>)} : t \in Types}
  \cup {Msg(11, NoH, [Pat(30, 5) EXCEPT ![16] = v], <<>>) : v \in Sweep8}            \* grandmasterClockQuality.clockAccuracy
  \cup {Msg(11, NoH, [Pat(30, 5) EXCEPT ![16] = 33, ![15] = v], <<>>) : v \in Sweep8}            \* clockClass
  \cup {Msg(11, NoH, [Pat(30, 5) EXCEPT ![16] = 33, ![30] = v], <<>>) : v \in Sweep8}            \* timeSource
  \cup {Msg(11, NoH, [Pat(30, 5) EXCEPT ![16] = 33, ![13] = v], <<>>) : v \in Sweep8}            \* reserved octet
  \cup {Msg(13, NoH, [Pat(14, 5) EXCEPT ![13] = v], <<>>) : v \in Sweep8}            \* reserved | actionField
  \cup {Msg(13, NoH, [Pat(14, 5) EXCEPT ![11] = v, ![12] = 255 - v, ![14] = v], <<>>) : v \in Sweep8}
\* the top bit of every body octet, one octet at a time, at 128 and 255 (a field assembled from signed parts, or widened with sign
\* extension, decodes such octets into something the encoder does not give back; e.g. a secondsField after January 2038). The
\* octets holding closed enumerations (clockAccuracy, timeSource, actionField) are swept separately above.
SignFamily ==
  UNION {{Msg(t, NoH, [Body0(t) EXCEPT ![i] = v], <<>>) : i \in {j \in 1..BodyLen(t) : ~(t = 11 /\ j \in {16, 30}) /\ ~(t = 13 /\ j = 13)}, v \in {128, 255}} : t \in Types}
\* TLV layouts on Announce, Sync and Signaling
Suffixes ==
  {<<>>, Tlv(8, Pat(8, 1)), Tlv(16384, <<>>), Tlv(3, Pat(6, 2)) \o Tlv(16384, Pat(2, 3)), Tlv(16384, Pat(2, 3)) \o Tlv(9, <<>>),
   Tlv(16384, <<>>) \o Tlv(32768, Pat(4, 1)), Tlv(65535, Pat(2, 1)) \o Tlv(0, Pat(2, 1)) \o Tlv(8192, Pat(2, 1)),
   <<0, 3, 0, 3, 1, 2, 3>>,                              \* odd length
   <<0, 3, 0, 3, 1, 2, 3, 4>>,                           \* odd length, padded
   <<0, 3, 0, 8, 1, 2>>,                                 \* truncated value
   <<64, 0, 0>>, <<64>>, <<64, 0>>,                      \* truncated TLV header
   Tlv(16384, Pat(2, 3)) \o <<0>>, Tlv(16384, Pat(2, 3)) \o <<0, 0, 0>>,      \* trailing octets
   Tlv(16384, Pat(900, 3)), Tlv(8, Pat(1032, 1))}
TlvFamily == {Msg(t, NoH, Body0(t), s) : t \in {0, 11, 12, 13}, s \in Suffixes}
\* messageLength against the buffer: declared shorter / longer than the buffer, shorter than header / body, padding after the message
LenFamily ==
  UNION {
    {[Msg(t, NoH, Body0(t), Tlv(16384, Pat(2, 3))) EXCEPT ![3] = ml \div 256, ![4] = ml % 256] :
        ml \in {0, 33, 34, 34 + BodyLen(t) - 1, 34 + BodyLen(t), 34 + BodyLen(t) + 3, 34 + BodyLen(t) + 4, 34 + BodyLen(t) + 6, 34 + BodyLen(t) + 7, 2048, 65535}} \cup
    {Msg(t, NoH, Body0(t), <<>>) \o Pat(k, 77) : k \in {1, 2, 4, 30}} \cup                   \* transport padding after the message
    {SubSeq(Msg(t, NoH, Body0(t), <<>>), 1, k) : k \in {0, 1, 2, 33, 34, 34 + BodyLen(t) - 1}}   \* truncated buffers
    : t \in Types}

Vectors == HeaderFamily \cup TypeFamily \cup BodyFamily \cup SignFamily \cup TlvFamily \cup LenFamily

VARIABLES vec, done
vars == <<vec, done>>
Init == vec \in Vectors /\ done = FALSE
Next == ~done /\ done' = TRUE /\ UNCHANGED vec
Spec == Init /\ [][Next]_vars

\* laws of the reference itself: the canonical form is a message, is a fixed point, and has the declared length
Laws == DecodeOk(vec) => /\ DecodeOk(Canon(vec))
                         /\ Canon(Canon(vec)) = Canon(vec)
                         /\ Len(Canon(vec)) = BE16(vec, 3)
Out == IF DecodeOk(vec) THEN [b |-> vec, ok |-> TRUE, canon |-> Canon(vec), rv |-> ReservedValueAt(vec)]
       ELSE [b |-> vec, ok |-> FALSE]
Emit == PrintT(<<"E", ToJson(Out)>>)
=============================================================================
