-------------------------------- MODULE Servo --------------------------------
(***************************************************************************)
(* C13 / C02: the life cycle of clock control by one port's servo and the  *)
(* guards on every command it gives the clock.                              *)
(*   Idle -> Controlling (first measurement) -> Demobilized (the port left *)
(*   the slave state): at most one final frequency command, none after.    *)
(* Every frequency is finite and within +-MaxFreq (milli-ppm); every step  *)
(* is finite and at least Threshold (ns) in magnitude.                     *)
(* For C02 the closed loop adds a phase: Acquire until Tconv, then Locked: *)
(* the true offset stays below Bound and the clock is never stepped.       *)
(***************************************************************************)
EXTENDS Naturals, Integers, Sequences, TLC

VARIABLES phase, final, maxf, thr, basic
svars == <<phase, final, maxf, thr, basic>>

SInit == phase = "Idle" /\ final = 0 /\ maxf = 0 /\ thr = 0 /\ basic = FALSE

New(mf, th, b) == phase' = "Idle" /\ final' = 0 /\ maxf' = mf /\ thr' = th /\ basic' = b
Measurement == /\ phase \in {"Idle", "Controlling"} /\ phase' = "Controlling" /\ UNCHANGED <<final, maxf, thr, basic>>
\* a frequency command: finite, within the bound (Kalman); while demobilizing at most one
Freq(fin, mag) == /\ fin
                  /\ (basic \/ mag <= maxf)
                  /\ phase \in {"Controlling", "Demobilized"}
                  /\ (phase = "Demobilized" => final = 0)
                  /\ final' = IF phase = "Demobilized" THEN 1 ELSE final
                  /\ UNCHANGED <<phase, maxf, thr, basic>>
\* a step: finite, at least the threshold (Kalman), never while demobilizing
Step(fin, mag) == /\ fin
                  /\ (basic \/ mag + 1 >= thr)          \* +1 ns: Duration::from_seconds quantises to 2^-32 s
                  /\ phase = "Controlling"
                  /\ UNCHANGED svars
Demobilize == /\ phase \in {"Idle", "Controlling"} /\ phase' = "Demobilized" /\ final' = 0 /\ UNCHANGED <<maxf, thr, basic>>
=============================================================================
