------------------------------ MODULE Exporter ------------------------------
(***************************************************************************)
(* C20: the metrics exporter's accept loop                                 *)
(* (statime-linux/src/metrics/exporter.rs) as a state machine over client  *)
(* behaviours and behaviours of the observation socket. One connection is  *)
(* served at a time: Accepting -> Reading (chunks arrive, or the stream    *)
(* ends) -> Handling (connect to the observation socket, read JSON)        *)
(* -> Responding -> Accepting.                                             *)
(*                                                                         *)
(* `Robust` = TRUE is the required behaviour (and the code after fix:);    *)
(* `Robust` = FALSE is the accept loop as it was found: end of stream in   *)
(* Reading is not noticed (read() = 0 for ever), an oversized request      *)
(* `continue`s the read loop, an I/O error leaves the process.             *)
(***************************************************************************)
EXTENDS Naturals, Sequences, TLC, Json

CONSTANTS Robust, MaxLen
\* a well-formed GET that reaches the exporter in two reads: cut after 1, 2, 3 or 9 octets, or inside the header terminator
Splits == {"split1", "split2", "split3", "split", "splitT"}
Clients == {"get", "close0", "closeN", "oversize", "nonget", "reset"} \cup Splits
Sockets == {"valid", "truncated", "invalid", "refused", "closes"}
\* the observation socket only matters when the request is a GET; a split GET is tried against a valid socket only
Alphabet == {<<c, "-">> : c \in Clients \ ({"get"} \cup Splits)} \cup {<<"get", s>> : s \in Sockets} \cup {<<c, "valid">> : c \in Splits}

\* what the client must observe on its connection
Expected(b) == CASE b[1] \in {"get"} \cup Splits /\ b[2] = "valid" -> "200"
                 [] b[1] \in {"get"} \cup Splits -> "500"
                 [] OTHER -> "closed"          \* no response, connection closed by the exporter (or by the client itself)

VARIABLES state, cur, seq, answered
vars == <<state, cur, seq, answered>>
\* state: Accepting | Reading | Handling | Responding | Spinning | Exited;  cur: behaviour being served;  seq: history
Init == state = "Accepting" /\ cur = <<"-", "-">> /\ seq = <<>> /\ answered = <<>>

Accept(b) == /\ state = "Accepting" /\ Len(seq) < MaxLen
             /\ state' = "Reading" /\ cur' = b /\ seq' = Append(seq, b) /\ UNCHANGED answered
\* the request arrives completely (possibly in two chunks)
RequestComplete == /\ state = "Reading" /\ cur[1] \in {"get", "nonget"} \cup Splits
                   /\ state' = IF cur[1] = "nonget" THEN "Accepting" ELSE "Handling"
                   /\ answered' = IF cur[1] = "nonget" THEN Append(answered, "closed") ELSE answered
                   /\ UNCHANGED <<cur, seq>>
\* the stream ends (or is reset, or overflows the 2048 octet buffer) before a request is complete
StreamEnds == /\ state = "Reading" /\ cur[1] \in {"close0", "closeN", "oversize", "reset"}
              /\ state' = IF Robust THEN "Accepting"
                          ELSE IF cur[1] = "reset" THEN "Exited" ELSE "Spinning"
              /\ answered' = Append(answered, "closed")
              /\ UNCHANGED <<cur, seq>>
Handle == /\ state = "Handling"
          /\ state' = "Responding" /\ UNCHANGED <<cur, seq, answered>>
Respond == /\ state = "Responding"
           /\ state' = "Accepting"
           /\ answered' = Append(answered, IF cur[2] = "valid" THEN "200" ELSE "500")
           /\ UNCHANGED <<cur, seq>>
Next == (\E b \in Alphabet : Accept(b)) \/ RequestComplete \/ StreamEnds \/ Handle \/ Respond
Spec == Init /\ [][Next]_vars /\ WF_vars(RequestComplete) /\ WF_vars(StreamEnds) /\ WF_vars(Handle) /\ WF_vars(Respond)

\* the exporter cannot be wedged: it is accepting again after every connection, never spins, never exits
NeverWedged == state \notin {"Spinning", "Exited"}
BackToAccepting == []<>(state = "Accepting")
\* every connection got what Expected says
Answers == \A i \in 1..Len(answered) : answered[i] = Expected(seq[i])

\* test generation: every history up to MaxLen with the expected observation per connection; the driver appends a
\* well-formed GET that must be answered 200 within the deadline
Emit == (state' = "Accepting" /\ seq' # <<>>) => PrintT(<<"E", ToJson([seq |-> seq', expect |-> [i \in 1..Len(seq') |-> Expected(seq'[i])]])>>)
View == <<state, cur, seq>>
=============================================================================
