"""Drives the real metrics exporter (built from /repo by the harness crate) as a subprocess: a TCP client
with scripted behaviours on one side, a scripted observation socket (unix) on the other."""
import json, os, socket, struct, subprocess, threading, time, shutil

GET = b"GET /metrics HTTP/1.1\r\nHost: localhost\r\nAccept: */*\r\n\r\n"


def free_port():
    s = socket.socket()
    s.bind(('127.0.0.1', 0))
    p = s.getsockname()[1]
    s.close()
    return p


class Rig:
    def __init__(self, exporter_bin, workdir, valid_json):
        self.dir = workdir
        os.makedirs(workdir, exist_ok=True)
        self.sock_path = os.path.join(workdir, 'obs.sock')
        self.valid_json = valid_json.encode() if isinstance(valid_json, str) else valid_json
        self.mode = 'valid'
        self.port = free_port()
        cfg = os.path.join(workdir, 'statime.toml')
        with open(cfg, 'w') as f:
            f.write('loglevel = "error"\n[[port]]\ninterface = "lo"\n[observability]\nobservation-path = "%s"\nmetrics-exporter-listen = "127.0.0.1:%d"\n' % (self.sock_path, self.port))
        if os.path.exists(self.sock_path):
            os.remove(self.sock_path)
        self.srv = socket.socket(socket.AF_UNIX, socket.SOCK_STREAM)
        self.srv.bind(self.sock_path)
        self.srv.listen(8)
        self.stop = False
        self.served = 0
        self.thread = threading.Thread(target=self._serve, daemon=True)
        self.thread.start()
        self.proc = subprocess.Popen([exporter_bin, '-c', cfg], stdout=subprocess.DEVNULL, stderr=subprocess.DEVNULL)
        self.ready = False

    def start_clean(self):
        """wait for the listener with full well-formed requests only"""
        deadline = time.time() + 10
        while time.time() < deadline:
            r = self.request('get', 'valid', timeout=1.0)
            if r == '200':
                self.ready = True
                return True
            time.sleep(0.05)
        return False

    def _serve(self):
        self.srv.settimeout(0.1)
        while not self.stop:
            try:
                c, _ = self.srv.accept()
            except socket.timeout:
                continue
            except OSError:
                return
            self.served += 1
            try:
                m = self.mode
                if m == 'valid':
                    c.sendall(self.valid_json)
                elif m == 'truncated':
                    c.sendall(self.valid_json[:len(self.valid_json) // 2])
                elif m == 'invalid':
                    c.sendall(b'{"program": 5, garbage')
                elif m == 'closes':
                    pass
            except OSError:
                pass
            finally:
                c.close()

    def request(self, client, sock_mode, timeout=2.0):
        """one connection with the given client behaviour; returns '200', '500', 'closed', 'timeout' or 'refused'"""
        self.mode = sock_mode
        moved = False
        if sock_mode == 'refused':
            os.rename(self.sock_path, self.sock_path + '.off')
            moved = True
        try:
            try:
                c = socket.create_connection(('127.0.0.1', self.port), timeout=timeout)
            except OSError:
                return 'refused'
            c.settimeout(timeout)
            try:
                return self._client(c, client, timeout)
            except OSError:
                return 'reset'          # the exporter reset the connection (or went away) while the client was writing
            finally:
                try:
                    c.close()
                except OSError:
                    pass
        finally:
            if moved:
                # give the exporter time to attempt (and fail) the connect before the socket is back
                time.sleep(0.05)
                os.rename(self.sock_path + '.off', self.sock_path)

    def _client(self, c, client, timeout):
        if True:
            if True:
                if client == 'get':
                    c.sendall(GET)
                    return self._read_response(c, timeout)
                if client in ('split', 'split1', 'split2', 'split3', 'splitT'):
                    cut = {'split': 9, 'split1': 1, 'split2': 2, 'split3': 3, 'splitT': len(GET) - 2}[client]
                    c.setsockopt(socket.IPPROTO_TCP, socket.TCP_NODELAY, 1)
                    c.sendall(GET[:cut])
                    time.sleep(0.03)
                    c.sendall(GET[cut:])
                    return self._read_response(c, timeout)
                if client == 'close0':
                    c.close()
                    return 'closed'
                if client == 'closeN':
                    c.sendall(b'GET /metr')
                    c.close()
                    return 'closed'
                if client == 'oversize':
                    try:
                        c.sendall(b'A' * 3000)
                    except OSError:
                        pass
                    c.close()
                    return 'closed'
                if client == 'nonget':
                    c.sendall(b"POST /metrics HTTP/1.1\r\nHost: localhost\r\n\r\n")
                    return self._read_response(c, timeout)
                if client == 'reset':
                    c.sendall(b'GET /me')
                    c.setsockopt(socket.SOL_SOCKET, socket.SO_LINGER, struct.pack('ii', 1, 0))
                    c.close()
                    return 'closed'
                raise ValueError(client)

    def _read_response(self, c, timeout):
        data = b''
        t0 = time.time()
        while time.time() - t0 < timeout:
            try:
                chunk = c.recv(65536)
            except socket.timeout:
                return 'timeout'
            except OSError:
                return 'closed' if not data else self._status(data)
            if not chunk:
                break
            data += chunk
            head, sep, body = data.partition(b'\r\n\r\n')
            if sep:
                cl = None
                for line in head.split(b'\r\n')[1:]:
                    k, _, v = line.partition(b':')
                    if k.strip().lower() == b'content-length':
                        cl = int(v.strip())
                if cl is not None and len(body) >= cl:
                    break
        self.last = data
        if not data:
            return 'closed'
        return self._status(data)

    def _status(self, data):
        self.last = data
        try:
            return data.split(b' ', 2)[1].decode()
        except Exception:
            return 'garbage'

    def alive(self):
        return self.proc.poll() is None

    def cpu_ticks(self):
        try:
            with open('/proc/%d/stat' % self.proc.pid) as f:
                parts = f.read().rsplit(')', 1)[1].split()
            return int(parts[11]) + int(parts[12])
        except Exception:
            return None

    def close(self):
        self.stop = True
        try:
            self.proc.kill()
            self.proc.wait(timeout=2)
        except Exception:
            pass
        try:
            self.srv.close()
        except Exception:
            pass
        shutil.rmtree(self.dir, ignore_errors=True)


def parse_exposition(text):
    """OpenMetrics-ish text -> (metrics: list of (name, labels dict, value str), problems: list)"""
    metrics = []
    problems = []
    declared = {}
    lines = text.split('\n')
    if lines and lines[-1] == '':
        lines = lines[:-1]
    else:
        problems.append('body does not end with a newline')
    if not lines or lines[-1] != '# EOF':
        problems.append('missing # EOF terminator')
    for ln in lines:
        if ln.startswith('# '):
            parts = ln.split(' ', 3)
            if len(parts) >= 3 and parts[1] in ('HELP', 'TYPE', 'UNIT'):
                declared.setdefault(parts[2], {})[parts[1]] = parts[3] if len(parts) > 3 else ''
            elif ln != '# EOF':
                problems.append('unknown comment line: ' + ln[:60])
            continue
        if not ln:
            problems.append('empty line')
            continue
        name, labels, rest = ln, {}, ''
        if '{' in ln:
            name, _, r = ln.partition('{')
            lab, _, rest = r.rpartition('} ')
            i = 0
            while i < len(lab):
                k, _, r2 = lab[i:].partition('="')
                j = 0
                val = ''
                while j < len(r2):
                    ch = r2[j]
                    if ch == '\\' and j + 1 < len(r2):
                        val += {'n': '\n', '\\': '\\', '"': '"'}.get(r2[j + 1], r2[j + 1])
                        j += 2
                        continue
                    if ch == '"':
                        break
                    val += ch
                    j += 1
                if k in labels:
                    problems.append('label %s repeated in a sample of %s' % (k, name))
                labels[k] = val
                i += len(k) + 2 + j + 1
                if i < len(lab) and lab[i] == ',':
                    i += 1
        else:
            name, _, rest = ln.partition(' ')
        try:
            float(rest)
        except ValueError:
            problems.append('value of %s is not a number: %r' % (name, rest[:30]))
        if name not in declared or 'TYPE' not in declared.get(name, {}):
            problems.append('sample of %s without TYPE line' % name)
        metrics.append((name, labels, rest))
    for n, d in declared.items():
        if 'UNIT' in d and not n.endswith('_' + d['UNIT']):
            problems.append('metric %s has unit %s but its name does not end with it' % (n, d['UNIT']))
    return metrics, problems, declared
