HOOK_COMMITS = ['f7eb06b', 'ae8447c', '2d073fc']
NOTES = ('Model-based verification with explicit TLA+ specifications (specs/), checked with TLC and bound to the code by replaying '
         'specification behaviours into the real objects (harness/, Binding A) and validating recorded executions against trace '
         'specifications (Binding B). See DESIGN.md.')
ENGINES = [
    {'name': 'instance-edges', 'path': 'specs/Instance.tla + specs/MC*.tla + harness/src/bin/replay.rs',
     'serves_properties': ['C05', 'C06', 'C08'],
     'kind_free_text': 'TLC enumerates every edge of the bounded state graph of the instance/port specification; each edge is replayed on fresh real objects and the projection compared'},
]
CLAIMED = {
    'C08': {
        'engine': 'instance-edges', 'level': 'model_checking', 'design_ref': 'DESIGN.md section 4, C08',
        'technique': 'TLA+ model checking (TLC invariants and action properties) + edge-by-edge conformance replay on the real code',
        'text': ('TLC checks OneSlave, MasterOnlyNeverSlave, SlaveOnlyInit, SlaveOnlyLate (invariants) and Emitters, ClockOwner (action '
                 'properties) on the instance specification for five port configurations, exhaustively to a depth bound over the full host-call '
                 'alphabet; every edge is replayed on real ports (debug and release profile) where the same statements are evaluated as '
                 'observable predicates on public getters, decoded frames and the recording clock.'),
        'note': 'bounded depth; two foreign masters; recording filter stands in for the servo (its steering/demobilise calls mark which port touches the clock)',
    },
}
CLAIMED['C05'] = {
    'engine': 'instance-edges', 'level': 'model_checking', 'design_ref': 'DESIGN.md section 4, C05',
    'technique': 'TLA+ reference of IEEE 1588 Fig. 33-35 (module Bmca) + TLC case enumeration + replay of every case on the real PtpInstance',
    'text': ('Module Bmca is the data set comparison and state decision transcribed from the standard; TLC checks its laws (antisymmetry, strictness, '
             'ties only as error cases, transitivity, no cycles) on a finite domain and enumerates every case of the lattice own clockClass x prior port '
             'states x qualified candidates per port x host port order (quick about 85 000 cases, thorough about 700 000) with invariants ParentIsBest, '
             'OrderIndependent, OneSlave; each case is replayed through real ports into the real PtpInstance::bmca and every port state and data set compared.'),
    'note': 'small exhaustive value domains as in the property; candidates qualified by two consecutive Announces; two and three ports',
}
CLAIMED['C06'] = {
    'engine': 'instance-edges', 'level': 'model_checking', 'design_ref': 'DESIGN.md section 4, C06',
    'technique': 'TLA+ model checking of the foreign master list with a ghost arrival window + edge-by-edge conformance replay + observable predicate on the real runs',
    'text': ('TLC checks NeedTwo, NeverUnqualified, Expires, Sticks on the instance specification with one to three masters whose Announces arrive as '
             'next/duplicate/stale/skipped sequence ids (incl. 65535->0) in every order relative to BMCA runs and receipt timeouts (exhaustive to a depth bound, '
             'simulation to depth 60); NeedTwoDistinct holds for the intended design and fails for the code only through the recorded duplicate-sequenceId '
             'finding. Every edge is replayed on a real port; list contents (hook), port state and parent are compared and the property is evaluated '
             'from the delivered history alone.'),
    'note': 'announce interval = BMCA interval; the capacity case (9 masters) only in the thorough tier by simulation',
}
NOT_CLAIMED = {}
