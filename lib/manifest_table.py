HOOK_COMMITS = ['f7eb06b', 'ae8447c', '2d073fc']
NOTES = ('Model-based verification with explicit TLA+ specifications (specs/), checked with TLC and bound to the code by replaying '
         'specification behaviours into the real objects (harness/, Binding A) and validating recorded executions against trace '
         'specifications (Binding B). See DESIGN.md.')
ENGINES = [
    {'name': 'instance-edges', 'path': 'specs/Instance.tla + specs/MC*.tla + harness/src/bin/replay.rs',
     'serves_properties': ['C08'],
     'kind_free_text': 'TLC enumerates every edge of the bounded state graph of the instance/port specification; each edge is replayed on fresh real objects and the projection compared'},
]
CLAIMED = {
    'C08': {
        'engine': 'instance-edges', 'level': 'model_checking', 'design_ref': 'DESIGN.md section 4, C08',
        'technique': 'TLA+ model checking (TLC invariants and action properties) + edge-by-edge conformance replay on the real code',
        'text': ('TLC checks OneSlave, MasterOnlyNeverSlave, SlaveOnlyInit, SlaveOnlyLate (invariants) and Emitters, ClockOwner (action '
                 'properties) on the instance specification for five port configurations, exhaustively to a depth bound over the full host-call '
                 'alphabet; every edge is replayed on real ports (debug and release profile) where the same statements are evaluated as '
                 'observable predicates on public getters, decoded frames and the recording clock.'),
        'note': 'bounded depth; two foreign masters; recording filter stands in for the servo (its steering/demobilise calls mark which port touches the clock)',
    },
}
NOT_CLAIMED = {}
