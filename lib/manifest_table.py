HOOK_COMMITS = ['f7eb06b', 'ae8447c', '2d073fc']
NOTES = ('Model-based verification with explicit TLA+ specifications (specs/), checked with TLC and bound to the code by replaying '
         'specification behaviours into the real objects (harness/, Binding A) and validating recorded executions against trace '
         'specifications (Binding B). See DESIGN.md.')
ENGINES = [
    {'name': 'servo-traces', 'path': 'specs/Servo.tla, specs/TraceServo.tla, specs/TraceLoop.tla + harness/src/bin/{servo,servoloop}.rs',
     'serves_properties': ['C02', 'C13'],
     'kind_free_text': 'executions of the real servo (adversarial open-loop sequences; closed loop against a simulated master and oscillator) are recorded as ndjson traces and validated by TLC against trace specifications'},
    {'name': 'exporter-rig', 'path': 'specs/Exporter.tla, specs/Metrics.tla + lib/expdrv.py + harness/src/bin/{exporter,obsdump}.rs',
     'serves_properties': ['C19', 'C20'],
     'kind_free_text': 'TLC enumerates connection-behaviour sequences / instance states with expected metrics; a Python rig runs the real exporter process between a scripted TCP client and a scripted observation socket'},
    {'name': 'reference-vectors', 'path': 'specs/Codec.tla, specs/TimeArith.tla, specs/Overlay.tla + harness/src/bin/{codecvec,codecfuzz,timevec,overlay}.rs',
     'serves_properties': ['C04', 'C16', 'C18'],
     'kind_free_text': 'TLC evaluates an independent TLA+ reference (codec, limb arithmetic, exact overlay clock) over enumerated families / bounded behaviours; every vector or edge is applied to the real code and compared'},
    {'name': 'network-model', 'path': 'specs/Network.tla, specs/Tree.tla, specs/MCNet.tla, specs/TraceNet.tla + harness/src/bin/netsim.rs',
     'serves_properties': ['C01'],
     'kind_free_text': 'N copies of the instance specification composed with a segment/round model; TLC explores every schedule of small networks; each scheduling decision is executed on N real instances wired in memory, and free-running simulations of the real code are validated against the trace specification'},
    {'name': 'instance-edges', 'path': 'specs/Instance.tla + specs/MC*.tla + harness/src/bin/replay.rs',
     'serves_properties': ['C03', 'C17', 'C05', 'C06', 'C07', 'C08', 'C09', 'C10', 'C11', 'C12', 'C14', 'C15'],
     'kind_free_text': 'TLC enumerates every edge of the bounded state graph of the instance/port specification; each edge is replayed on fresh real objects and the projection compared'},
]
CLAIMED = {
    'C08': {
        'engine': 'instance-edges', 'level': 'model_checking', 'design_ref': 'DESIGN.md section 4, C08',
        'technique': 'TLA+ model checking (TLC invariants and action properties) + edge-by-edge conformance replay on the real code',
        'text': ('TLC checks OneSlave, MasterOnlyNeverSlave, SlaveOnlyInit, SlaveOnlyLate (invariants) and Emitters, ClockOwner (action '
                 'properties) on the instance specification for five port configurations, exhaustively to a depth bound over the full host-call '
                 'alphabet; every edge is replayed on real ports (debug and release profile) where the same statements are evaluated as '
                 'observable predicates on public getters, decoded frames and the recording clock.'),
        'note': 'bounded depth; two foreign masters; recording filter stands in for the servo (its steering/demobilise calls mark which port touches the clock)',
    },
}
CLAIMED['C05'] = {
    'engine': 'instance-edges', 'level': 'model_checking', 'design_ref': 'DESIGN.md section 4, C05',
    'technique': 'TLA+ reference of IEEE 1588 Fig. 33-35 (modules BmcaCompare, Bmca) whose comparison laws are proved for all integers by Apalache + TLC case enumeration + replay of every case on the real PtpInstance + validation of recorded executions (TraceInstance.tla)',
    'text': ('Module Bmca is the data set comparison and state decision transcribed from the standard; TLC checks its laws (antisymmetry, strictness, '
             'ties only as error cases, transitivity, no cycles) on a finite domain and enumerates every case of the lattice own clockClass x prior port '
             'states x qualified candidates per port x host port order (quick about 85 000 cases, thorough about 700 000) with invariants ParentIsBest, '
             'OrderIndependent, OneSlave; each case is replayed through real ports into the real PtpInstance::bmca and every port state and data set compared.'),
    'note': 'small exhaustive value domains as in the property; candidates qualified by two consecutive Announces; two and three ports',
}
CLAIMED['C06'] = {
    'engine': 'instance-edges', 'level': 'model_checking', 'design_ref': 'DESIGN.md section 4, C06',
    'technique': 'TLA+ model checking of the foreign master list with a ghost arrival window + edge-by-edge conformance replay + observable predicate on the real runs',
    'text': ('TLC checks NeedTwo, NeverUnqualified, Expires, Sticks on the instance specification with one to three masters whose Announces arrive as '
             'next/duplicate/stale/skipped sequence ids (incl. 65535->0) in every order relative to BMCA runs and receipt timeouts (exhaustive to a depth bound, '
             'simulation to depth 60); NeedTwoDistinct holds for the intended design and fails for the code only through the recorded duplicate-sequenceId '
             'finding. Every edge is replayed on a real port; list contents (hook), port state and parent are compared and the property is evaluated '
             'from the delivered history alone.'),
    'note': 'announce interval = BMCA interval; the capacity case (9 masters) only in the thorough tier by simulation',
}

CLAIMED['C07'] = {
    'engine': 'instance-edges', 'level': 'model_checking', 'design_ref': 'DESIGN.md section 4, C07',
    'technique': 'TLA+ action property (noise => state unchanged and nothing returned) checked by TLC + edge-by-edge conformance replay + randomised two-run lock-step comparison on the real code',
    'text': ('Noise frames (other domain / sdoId / versionPTP, malformed, Signaling, Management, Announce from outside the acceptable master list or bearing the own '
             'port identity, Sync / Follow_Up / Delay_Resp from a non-parent or for another requester, Sync on the general channel) are members of the alphabet; TLC checks '
             'the action property NoiseInert in every reachable state of the slave exchange and of the role changes; every edge is replayed on real ports with the complete '
             'projection (incl. internal snapshot and rng draws) compared; a randomised driver runs histories with and without inserted frames in lock-step.'),
    'note': 'one-run form in TLC (induction over insertion positions gives the two-run statement); two-run form sampled on the real code',
}
CLAIMED['C09'] = {
    'engine': 'instance-edges', 'level': 'model_checking', 'design_ref': 'DESIGN.md section 4, C09',
    'technique': 'TLA+ model checking with symbolic timestamps (provenance invariants over expression trees) + conformance replay with bit-exact evaluation of the trees',
    'text': ('The slave sub-machines of the port specification keep timestamps and corrections as named symbols; TLC explores all interleavings, duplications and '
             'omissions of two to three Sync exchanges (one- and two-step, ids across 65535->0) and two Delay exchanges and checks SingleExchange and DelayIdsMatch on the '
             'expression tree of every measurement. Every edge is replayed on a real port: the trees are evaluated in 128-bit integers over per-seed concrete values and '
             'compared with the Measurement the filter received (1 unit of 2^-32 ns allowed per halving).'),
    'note': 'recording filter (mean delay := measured delay); each transmit timestamp reported once',
}
CLAIMED['C10'] = {
    'engine': 'instance-edges', 'level': 'model_checking', 'design_ref': 'DESIGN.md section 4, C10',
    'technique': 'TLA+ action properties (FollowUpOnce, Echo, SeqPlusOne, OneEventSend) checked by TLC + conformance replay with independent frame decoding + 65540-emission wrap driver',
    'text': ('TLC checks the identifier and echo rules on the master-side handlers in every port role; each edge is replayed on real ports, emitted frames are decoded by an '
             'independent Clause 13 decoder and by statime\'s own parser, "timestamp + correction" is compared with the symbolic sum to 2^-16 ns, identity/domain/sdoId/size '
             'and the single-event-send rule are observable predicates; a driver pushes 65540 emissions of each type through real ports to cross the sequence wrap.'),
    'note': 'timestamps concretised per seed over the PTP range with sub-nanosecond fractions',
}
CLAIMED['C11'] = {
    'engine': 'instance-edges', 'level': 'model_checking', 'design_ref': 'DESIGN.md section 4, C11',
    'technique': 'TLA+ invariants GMOwn / GMParent and action property AnnounceContent checked by TLC + conformance replay decoding every emitted Announce',
    'text': ('On boundary clocks with two ports TLC checks that the data sets equal the own attributes after a BMCA without slave port and the last Announce of the parent '
             '(stepsRemoved + 1, flags, utc offset, time source) while a port is slave, over parent content changes, parent loss, take-overs and quality changes; the emitted '
             'Announce is a function of the data sets. Every edge is replayed and each Announce decoded field by field by the independent decoder.'),
    'note': 'between a receipt timeout and the next BMCA the data sets still hold the old parent (the property leaves that interval open); four content variants',
}
CLAIMED['C14'] = {
    'engine': 'instance-edges', 'level': 'model_checking', 'design_ref': 'DESIGN.md section 4, C14',
    'technique': 'TLA+ model checking of the peer delay machine with symbolic timestamps (OneResponder, SecondResponderFaults, FaultyIsInert, LeavesOnlyByCleanExchange) + conformance replay',
    'text': ('Two requests, a two-step and a one-step responder, transmit timestamp / Pdelay_Resp / Pdelay_Resp_Follow_Up each up to twice in any order, in listening, master and '
             'slave state; TLC checks provenance and the fault rules; every edge is replayed on a real P2P port, peer delay compared bit-exactly, port state compared.'),
    'note': 'the faulty-port-becomes-master defect found by this check is repaired by fix: 0d9a59a',
}

CLAIMED['C03'] = {
    'engine': 'instance-edges', 'level': 'exploration', 'design_ref': 'DESIGN.md section 4, C03',
    'technique': 'TLA+ specification total over a boundary-class alphabet; TLC enumerates (state, extreme input) edges which are replayed under catch_unwind in debug and release profiles; plus a randomised extreme-value / mutated-frame driver',
    'text': ('Every action of the specification is enabled for every input class in every state; TLC enumerates the edges of slave, master, peer-delay and listening '
             'configurations over boundary classes of correction fields, timestamps, stepsRemoved, path-trace lengths and TLV sizes; each edge is executed on real ports '
             'in the overflow-checking debug profile and in the release profile, any unwind or lock span left by unwinding is a violation. A random driver adds 600 000 '
             '(quick) calls with the same classes, random and mutated frames up to 2048 octets and six port configurations per profile. Seven panics found this way are repaired by fix: commits.'),
    'note': 'classes are sampled, not every value; the recording mutex reports poisoning (an unwind inside with_mut) instead of a real RwLock',
}
CLAIMED['C12'] = {
    'engine': 'instance-edges', 'level': 'model_checking', 'design_ref': 'DESIGN.md section 4, C12',
    'technique': 'TLA+ safety invariant NoOrphanWait on instance x host timers + TLC liveness checking (weak fairness, no state constraint) of the finite continuation model + conformance replay + virtual-time continuation driver on the real code',
    'text': ('MCHost composes the instance specification with a host that arms exactly the requested timers and fires only armed ones. TLC checks NoOrphanWait on every '
             'reachable state (E2E, two ports with a master-only port, P2P with peer-delay faults) and, on the finite continuation model without a depth bound, '
             'LiveSilence, LiveSilenceSlaveOnly and LiveSteady under weak fairness. Every safety edge is replayed on real ports with the exact timer actions compared and the '
             'armed set tracked from the real returned actions; a virtual-time host continues random real histories with silence / a steady better master and checks state and cadence.'),
    'note': 'one recorded finding (P2P port recovering from faulty into listening with no receipt timer); liveness for two-port and P2P configurations only in the thorough tier',
}
CLAIMED['C15'] = {
    'engine': 'instance-edges', 'level': 'model_checking', 'design_ref': 'DESIGN.md section 4, C15',
    'technique': 'TLA+ model checking of TLV forwarding with integer room accounting and tagged TLV instances (Fits, OnlyParentPropagating, OrderOnce, NextWithRoom, AlwaysSent, PathOK, NoLoopAccepted) + conformance replay through the real TlvForwarder',
    'text': ('A boundary clock with one slave and one or two master ports; Announces from the parent and from another acceptable master carry TLV lists whose sizes sit at, below and '
             'above the room of an Announce (with and without path trace, path lengths up to 129); TLC checks the forwarding invariants; every edge is replayed on real ports wired to '
             'the real daemon forwarder, the TLV suffix of each emitted Announce is decoded independently and by statime\'s parser. A driver overflows the 128-slot channel.'),
    'note': 'one recorded finding (a TLV larger than any Announce blocks the queue); four defects found by this check are repaired by fix: commits',
}

CLAIMED['C17'] = {
    'engine': 'instance-edges', 'level': 'model_checking', 'design_ref': 'DESIGN.md section 4, C17',
    'technique': 'TLA+ lock model (writer-preferring RwLock, separate acquire/release steps) instantiated with acquisition patterns recorded from the real calls, checked by TLC for deadlock and AtomicSnapshot; nesting-detecting mutex under every replay; real-thread stress over std::sync::RwLock',
    'text': ('Every replayed history runs over a PtpInstanceStateMutex implementation that panics on nested acquisition and logs, per public call, the sequence of read/write '
             'spans and the data sets each write span changed. The observed patterns become the thread programs of Lock.tla (two port threads, the BMCA task, an observer); '
             'TLC checks absence of deadlock, LockOK and AtomicSnapshot over all interleavings; negative controls (nested read, update split over two spans) must fail. A real '
             'multi-threaded run over std::sync::RwLock checks that parent / time-properties snapshots and emitted Announces never mix two updates.'),
    'note': 'RwLock assumed writer-preferring (Linux futex implementation); patterns are those reached by the randomised driver and the edge suites',
}

CLAIMED['C04'] = {
    'engine': 'reference-vectors', 'level': 'exploration', 'design_ref': 'DESIGN.md section 4, C04',
    'technique': 'independent codec written in TLA+ from Clause 13 and evaluated by TLC over enumerated buffer families; each vector through statime\'s parser/serialiser; three-way agreement with a second independent decoder; byte-level fuzz',
    'text': ('Codec.tla defines which buffers are messages (header, body lengths, TLV tiling, messageLength vs buffer) and the canonical re-encoding (reserved positions cleared). TLC '
             'checks its laws and enumerates about 20 000 (quick) buffers: every type x every value of each 8-bit header field, boundary values of wider fields, one-octet body fields, '
             '17 TLV layouts, every length relation. statime must agree on accept/reject, re-encode to exactly the canonical octets with the declared length, decode again to an equal '
             'message and be idempotent; 300 000 random/mutated buffers are checked against the harness decoder, incl. that octets after messageLength never matter.'),
    'note': 'exhaustive over the enumerated lattice, sampled elsewhere; one recorded finding (reserved enumeration values not preserved), one defect repaired (management body offsets)',
}
CLAIMED['C16'] = {
    'engine': 'reference-vectors', 'level': 'exploration', 'design_ref': 'DESIGN.md section 4, C16',
    'technique': 'mixed-radix limb reference in TLA+ (modules TimeLimbs, TimeArith), proved equal to integer arithmetic for all magnitudes by Apalache, evaluated by TLC on a boundary lattice with its algebraic laws as invariant; each vector applied to the real operators in debug and release profile; wire conversions observed through a real port',
    'text': ('TimeArith.tla represents times and durations as limbs (2^24 s, s, ns, 2^-16 ns, 2^-32 ns) with schoolbook carries; TLC checks (t+d)-d = t, (t+d)-t = d, wire split + '
             'sub-nanosecond correction = t to 2^-16 ns and the interval round trip on every lattice vector and prints the results; statime\'s Time/Duration must give bit-identical '
             'results in both profiles, must not wrap below zero, Follow_Up frames emitted by a real port must carry the reference\'s wire split, exported asymmetry the reference\'s '
             'interval; 200 000 random vectors and all log intervals 2^-64..2^63 s complete the run.'),
    'note': 'lattice exhaustive, rest sampled; results outside the representable range are only required not to wrap',
}
CLAIMED['C18'] = {
    'engine': 'reference-vectors', 'level': 'model_checking', 'design_ref': 'DESIGN.md section 4, C18',
    'technique': 'exact integer TLA+ model of the overlay clock; TLC enumerates all operation sequences to a depth bound (and simulates to length 50); every edge replayed on the real OverlayClock; random sequences against the same exact model',
    'text': ('Overlay.tla is the clock as an affine map in integer microseconds; Continuous, ExactStep, Rate, ReturnsNow are action properties of it. Every edge of the bounded graph '
             '(sequences of set_frequency in {+-500, +-100, 0} ppm, step_clock in {+-10 s, +-1 ms, 0}, advances {0, 1, 100, 700} s) is executed on a real OverlayClock over a mock '
             'underlying clock at three start points, three ways: on a clock that stands still during a call, on a clock that moves 1 us at every read, and with every frequency '
             'command p refined into (p - 0.0004 ppm, p); reading, returned time and time_from_underlying are compared with the exact value after every operation.'),
    'note': 'tolerance 2 ns + 2^-40 of the elapsed time (resolution of the implementation\'s fixed-point factor); the step_clock defect found is repaired by fix: 55c0e78',
}

CLAIMED['C19'] = {
    'engine': 'exporter-rig', 'level': 'exploration', 'design_ref': 'DESIGN.md section 4, C19',
    'technique': 'TLA+ mapping from abstract instance state to the expected metric set (Metrics.tla) attached by TLC to every explored state; real getters -> real JSON serialisation -> real exporter process -> HTTP GET -> every metric compared',
    'text': ('TLC explores boundary-clock, path-trace (lists of 0..128 entries) and P2P configurations of the instance specification and attaches to each state the metrics it must '
             'show, with the meaning of the help texts (true = 1, portState codes, nanosecond units, path numbered from the grandmaster). For every state with a distinct expectation '
             'the history is replayed on real objects, the observable state assembled from the live getters, serialised with serde_json, served to the real exporter and fetched over '
             'HTTP: status, Content-Length, well-formed exposition and every value are checked; filter estimates include +-10 s (fixed point beyond 64 bits).'),
    'note': 'the assembly of the observable state mirrors main.rs; two defects found (inverted booleans, seconds under a nanoseconds name) are repaired by fix: commits',
}
CLAIMED['C20'] = {
    'engine': 'exporter-rig', 'level': 'fault_enumeration', 'design_ref': 'DESIGN.md section 4, C20',
    'technique': 'TLA+ state machine of the accept loop (Exporter.tla) model-checked for NeverWedged / BackToAccepting; TLC enumerates all sequences of client x observation-socket behaviours to a length bound, each executed against the real exporter process followed by a probe request',
    'text': ('Exporter.tla has the accept loop as Accepting / Reading / Handling / Responding with the eleven client behaviours (incl. a well-formed GET cut after 1, 2, 3, 9 octets and inside the header terminator) and five observation-socket behaviours of the property; '
             'TLC checks that the required behaviour is never wedged and always returns to accepting, shows that the loop as originally found is wedged (negative control), and enumerates '
             'every sequence up to length 2 (quick) / 3 (thorough) plus sampled sequences of length 3-4 with the expected observation per connection. Each sequence runs against a fresh '
             'real exporter process; afterwards a well-formed request must be answered 200 within 2 s, with the process alive and not burning CPU.'),
    'note': 'the accept-loop defects found are repaired by fix: 9f182a5',
}

CLAIMED['C13'] = {
    'engine': 'servo-traces', 'level': 'exploration', 'design_ref': 'DESIGN.md section 4, C13',
    'technique': 'trace validation: every clock command of the real KalmanFilter / BasicFilter under adversarial measurement sequences is an event of an ndjson trace that TLC checks against Servo.tla (life cycle + command guards)',
    'text': ('Servo.tla states the life cycle (Idle, Controlling, Demobilized: at most one final frequency command) and the guards (finite; |frequency| <= max_freq_offset; '
             '|step| >= step_threshold). A driver feeds nine families of adversarial measurement sequences and a range of configurations into the real filters with an exact mock '
             'clock that can fail; TLC validates each recorded trace (about 170 000 events quick) and must reject a trace with one out-of-bound command (negative control).'),
    'note': 'sampled sequences, exhaustive over nothing; two NaN defects found this way are repaired by fix: commits; the port-level demobilise rule is checked by C08',
}
CLAIMED['C02'] = {
    'engine': 'servo-traces', 'level': 'exploration', 'design_ref': 'DESIGN.md section 4, C02',
    'technique': 'trace validation of closed-loop runs: real slave Port + real Kalman servo against a simulated master, path and oscillator in virtual time; TLC checks each recorded run against TraceLoop.tla (Locked => offset <= Bound(jitter), no step after Tconv, command guards)',
    'text': ('A real port with the real KalmanFilter is driven by Announce / Sync / Follow_Up / Delay_Resp frames of a simulated master over a symmetric path with bounded jitter; its own '
             'set_frequency / step_clock act on a simulated oscillator, so the loop is closed; the host obeys the timer actions. Each run logs the true offset at every Sync arrival and every '
             'clock command; TLC accepts the trace iff after Tconv = max(1200 s, 600 intervals) the offset stays below 0.5 us + 3 x jitter and the clock is never stepped.'),
    'note': 'bounds are empirical (calibrated on 12 150 runs of the unchanged tree, margin >= 3); the grid is sampled in the quick tier and complete (2430 cells) in the thorough tier',
}
CLAIMED['C01'] = {
    'engine': 'network-model', 'level': 'model_checking', 'design_ref': 'DESIGN.md section 4, C01',
    'technique': 'TLA+ composition of N instance specifications (Network.tla) model-checked by TLC for Settle (tree predicate after K quiet rounds) and NoFlap; every explored scheduling decision replayed on N real PtpInstances exchanging their real Announce octets; free-running simulations of the real code validated against TraceNet.tla',
    'text': ('Network.tla instantiates Instance.tla once per node and adds segments, rounds (announce interval = BMCA interval), receipt timeouts between T and 2T rounds and one fault '
             '(cut or restore a segment, silence a node, change a quality). TLC explores the complete state graph of every two-node ranking (incl. clockClass 6 and slave-only) and shows the '
             'convergence bound K is tight; three- and four-node chains, stars, rings and shared segments are covered by simulation. Each edge is executed on real instances and the '
             'port states, parents, grandmasters and stepsRemoved compared; free runs with real timer durations, delays and drift are logged and checked by TLC against the tree predicate.'),
    'note': 'one fault per behaviour (cut / restore a segment, silence a node, change a quality); an instance with clockClass < 128 is the grandmaster of what lies behind it (per-instance tree predicate, DESIGN 0.4); two ports of one instance on one segment is a recorded finding (steady state flaps); slave-only nodes are configured per IEEE 1588 (clockClass 255, not ranked above the grandmaster)',
}
# Binding B of the instance specification and the network-level measurement runs are part of these checks
for _c in ('C03', 'C05', 'C06', 'C07', 'C08', 'C09', 'C10', 'C11', 'C12', 'C14', 'C15'):
    if 'TraceInstance' not in CLAIMED[_c]['technique']:
        CLAIMED[_c]['technique'] += ' + trace validation: long random histories of host calls on a real PtpInstance are recorded and accepted by TLC iff every step is the step Instance.tla takes (TraceInstance.tla)'
for _c in ('C09', 'C10'):
    CLAIMED[_c]['technique'] += ' + networks of real instances exchanging their own Sync / Follow_Up / Delay_Req / Delay_Resp frames, every measurement checked for exactness by TLC (TraceNet.tla, MeasOK)'
NOT_CLAIMED = {}
