"""Per-property checks. Each CHECKS[id](tier, seed) returns the exit code."""
import json, os, time, subprocess, sys, glob, shutil
import vlib
from vlib import (ToolError, build, run_edges, run_tlc, write_cfg, outdir, Verdict, judge_edges, write_evidence,
                  write_tlc_counterexample, SPECS, ROOT, OUT, binpath)

OWN = {"id": 5, "p1": 128, "p2": 128, "class": 248, "acc": 254, "var": 65535}
TP0 = {"utc": None, "leap": 0, "tt": False, "ft": False, "ptp": False, "src": 160}


def world(ports, so=False, ptrace=False, fwd=False, empty_on_bmca=False, own=None):
    o = dict(OWN)
    if own:
        o.update(own)
    o['so'] = so
    o['ptrace'] = ptrace
    return {"own": o, "tp0": TP0, "ports": ports, "fwd": fwd, "empty_on_bmca": empty_on_bmca}


def e2e(mo=False, aml=None):
    d = {"p2p": False, "mo": mo}
    if aml is not None:
        d['aml'] = aml
    return d


def p2p(mo=False, aml=None):
    d = {"p2p": True, "mo": mo}
    if aml is not None:
        d['aml'] = aml
    return d


INST_CONST = {'Own': ('<-', 'MC_Own'), 'OwnP': ('<-', 'MC_OwnP'), 'Q0': ('<-', 'MC_Q0'), 'TP0': ('<-', 'MC_TP0'),
              'SO0': False, 'PTrace': False, 'Fwd': False, 'EmptyOnBmca': False, 'DevDup': True}

# variants of the instance configuration shared by several properties: name -> (constants, world)
INST_VARIANTS = {
    'A': ({'PCfg': ('<-', 'PCfg_A')}, world([e2e(), e2e()])),
    'B': ({'PCfg': ('<-', 'PCfg_B')}, world([e2e(), e2e(mo=True)])),
    'C': ({'PCfg': ('<-', 'PCfg_C')}, world([e2e(aml=[2]), e2e()])),
    'D': ({'PCfg': ('<-', 'PCfg_D')}, world([e2e(), p2p(), e2e(mo=True)])),
    'E': ({'PCfg': ('<-', 'PCfg_E')}, world([e2e()])),
    'S': ({'PCfg': ('<-', 'PCfg_A'), 'SO0': True}, world([e2e(), e2e()], so=True)),
}


def suite_files(name, module, constants, wjson, **cfgkw):
    d = outdir('cfg')
    cfg = os.path.join(d, name + '.cfg')
    write_cfg(cfg, constants=constants, **cfgkw)
    wpath = os.path.join(d, name + '.world.json')
    with open(wpath, 'w') as f:
        json.dump(wjson, f)
    return cfg, wpath


class Acc:
    """accumulates coverage over the suites of one check"""
    def __init__(self):
        self.states = 0
        self.transitions = 0
        self.edges = 0
        self.events = 0
        self.distinct = 0
        self.samples = []
        self.suites = []
        self.tlc_only = []

    def add(self, name, stats, rep=None):
        self.states += stats['distinct']
        self.transitions += stats['generated']
        row = {'suite': name, 'distinct_states': stats['distinct'], 'states_generated': stats['generated'], 'depth': stats['depth'],
               'invariants_violated': stats['violated']}
        if rep is not None:
            self.edges += rep['edges']
            self.events += rep['events']
            self.distinct += rep['distinct_nontrivial']
            row.update({'edges_replayed': rep['edges'], 'api_calls': rep['events'], 'mismatch_by_field': rep['mismatch_by_field'],
                        'predicate_violations': rep['predicate_violations'], 'last_event_kinds': rep['last_event_kinds']})
            for s in rep['samples']:
                if len(self.samples) < 5:
                    self.samples.append(s)
        self.suites.append(row)


def run_inst_suite(prop, verdict, acc, name, module, constants, wjson, depth, seed, owns, preds, invariants=(), properties=(),
                   profile='dev', timeout=1500, workers=8, extra_const=None, simulate=None):
    c = dict(constants)
    c['Depth'] = depth
    if extra_const:
        c.update(extra_const)
    cfg, wpath = suite_files(name, module, c, wjson, invariants=invariants, properties=properties, view='View',
                             constraint='Bound', action_constraint='Emit')
    extra = []
    if simulate:
        extra = ['-simulate', 'num=%d' % simulate[0], '-depth', str(simulate[1]), '-seed', str(seed)]
    stats, rep = run_edges(module + '.tla', cfg, wpath, name, seed, profile=profile, timeout=timeout, workers=workers, extra=extra)
    acc.add(name, stats, rep)
    if stats['violated']:
        p = write_tlc_counterexample(prop, name, stats)
        verdict.add({'kind': 'tlc', 'key': 'tlc:' + ','.join(stats['violated']), 'detail': 'TLC: %s violated in %s' % (stats['violated'], name),
                     'replay': p, 'suite': name})
    judge_edges(verdict, rep, owns, preds, name)
    return stats, rep


def finish(prop, tier, seed, level, verdict, acc, t0, rule, assumptions, extra_cov=None, exhaustive=True):
    rc = verdict.finish()
    cov = {'states': acc.states, 'transitions': acc.transitions, 'traces_validated_against_impl': acc.edges,
           'samples': acc.samples or [{'note': 'no sample recorded'}],
           'evaluations': acc.edges, 'distinct_nontrivial': acc.distinct, 'rule': rule,
           'api_calls_on_real_code': acc.events, 'suites': acc.suites, 'exhaustive': exhaustive,
           'known_findings_seen': verdict.known, 'notes': verdict.notes}
    if extra_cov:
        cov.update(extra_cov)
    write_evidence(prop, tier, seed, level, cov, assumptions, time.time() - t0, len(verdict.violations))
    return rc


COMMON_ASSUME = [
    'TLC, SANY and the CommunityModules are correct',
    'the harness projection, its independent codec and the concretisation of abstract values are correct (self-tested in setup)',
    'abstraction: clock identities and attributes range over small order-preserving domains; ages are counted in BMCA steps',
]
EDGE_RULE = ('every edge (state, event, successor) of the bounded reachable graph of the specification is replayed as one test on fresh real '
             'objects and the projection of the real state is compared with the successor; an edge is non-trivial if its last call '
             'returns actions or changes the observable state; distinct = distinct (last event, pre port states, post port states, '
             'returned actions, filter calls) tuples')


# ------------------------------------------------------------------------------------------------ C08

def check_C08(tier, seed):
    t0 = time.time()
    build('dev')
    v = Verdict('C08')
    acc = Acc()
    inv = ['OneSlave', 'MasterOnlyNeverSlave', 'SlaveOnlyInit', 'SlaveOnlyLate']
    props_ = ['Emitters', 'ClockOwner']
    owns = ['clk']
    depth = {'A': 6, 'B': 5, 'S': 5, 'D': 4, 'E': 6} if tier == 'quick' else {'A': 8, 'B': 7, 'C': 7, 'S': 7, 'D': 6, 'E': 9}
    build('release')
    for var, d in depth.items():
        consts, w = INST_VARIANTS[var]
        c = dict(INST_CONST)
        c.update(consts)
        c['WithQ'] = (var in ('A', 'E'))
        # both profiles: debug assertions can turn a role violation into a panic (C03's business) and hide it here
        for prof in ('dev', 'release'):
            run_inst_suite('C08', v, acc, 'C08-inst-%s-%s' % (var, prof), 'MCInst', c, w, d, seed, owns, ['C08'],
                           invariants=inv, properties=props_, profile=prof)
    return finish('C08', tier, seed, 'model_checking', v, acc, t0, EDGE_RULE,
                  COMMON_ASSUME + ['depth-bounded exhaustive exploration of the host-call alphabet (Announces from a better and a worse master '
                                   'incl. duplicate/stale/skipped sequence ids, all timers, BMCA, run-time slave-only and quality changes) for '
                                   'five port configurations'])



# ------------------------------------------------------------------------------------------------ C05

def tla_set(xs):
    def f(x):
        if isinstance(x, bool):
            return 'TRUE' if x else 'FALSE'
        if isinstance(x, str):
            return '"%s"' % x
        return str(x)
    return '{' + ', '.join(f(x) for x in xs) + '}'


def run_case_suite(prop, verdict, acc, name, module, constants, wjson, seed, owns, preds, invariants=(), profile='dev', timeout=1800, workers=8):
    cfg, wpath = suite_files(name, module, constants, wjson, invariants=invariants, view='View', action_constraint='Emit')
    stats, rep = run_edges(module + '.tla', cfg, wpath, name, seed, profile=profile, timeout=timeout, workers=workers)
    acc.add(name, stats, rep)
    if stats['violated']:
        p = write_tlc_counterexample(prop, name, stats)
        verdict.add({'kind': 'tlc', 'key': 'tlc:' + ','.join(stats['violated']), 'detail': 'TLC: %s violated in %s' % (stats['violated'], name),
                     'replay': p, 'suite': name})
    judge_edges(verdict, rep, owns, preds, name)
    return stats, rep


def check_C05(tier, seed):
    t0 = time.time()
    build('dev')
    build('release')
    v = Verdict('C05')
    acc = Acc()
    inv = ['OneSlave', 'ParentIsBest', 'OrderIndependent']
    owns = ['pst', 'ppi', 'gm', 'steps', 'tp', 'path', 'clk', 'snap.rm']
    base = dict(INST_CONST)
    q = tier == 'quick'
    def consts(pcfg, cls, steps, gset, snd, prior, multi=False, so=(False,), rounds=1, so0=False):
        c = dict(base)
        c.update({'PCfg': ('<-', pcfg), 'ClsSet': tla_set(cls), 'StepSet': tla_set(steps), 'GSet': tla_set(gset), 'SndSet': tla_set(snd),
                  'PriorSet': tla_set(prior), 'Multi': multi, 'SoSet': tla_set(so), 'Rounds': rounds, 'SO0': so0})
        return c
    w2 = world([e2e(), e2e()])
    suites = []
    if q:
        suites += [
            ('two-ports', consts('PCfg_A', [6, 127, 128, 248, 255], [0, 1, 254], [0, 1, 3, 7, 8], [3, 7], ['L', 'M']), w2, 'dev'),
            ('master-only', consts('PCfg_B', [6, 248], [0, 1], [1, 7, 8], [3, 7], ['L', 'M'], so=(False, True)), world([e2e(), e2e(mo=True)]), 'release'),
            ('multi', consts('PCfg_A', [248], [0, 1], [1, 7, 8], [3, 7], ['L'], multi=True), w2, 'dev'),
            ('second-round', consts('PCfg_A', [6, 248], [0, 1, 2], [0, 1, 7, 8], [3, 7], ['L', 'M'], rounds=2), w2, 'dev'),
            ('three-ports', consts('PCfg_T', [248], [0, 1], [1, 8], [3, 7], ['L', 'M']), world([e2e(), e2e(), e2e()]), 'dev'),
        ]
    else:
        suites += [
            ('two-ports', consts('PCfg_A', [6, 127, 128, 248, 255], [0, 1, 2, 3, 254], [0, 1, 2, 3, 4, 5, 6, 7, 8, 9, 10], [3, 7], ['L', 'M']), w2, 'dev'),
            ('two-ports-rel', consts('PCfg_A', [6, 248], [0, 1, 2, 254], [0, 1, 3, 4, 5, 6, 7, 8], [3, 7], ['L', 'M']), w2, 'release'),
            ('master-only', consts('PCfg_B', [6, 127, 248], [0, 1, 2, 254], [0, 1, 3, 7, 8], [3, 7], ['L', 'M'], so=(False, True)), world([e2e(), e2e(mo=True)]), 'release'),
            ('master-only-dev', consts('PCfg_B', [6, 248], [0, 1, 254], [0, 1, 7, 8], [3, 7], ['L', 'M']), world([e2e(), e2e(mo=True)]), 'dev'),
            ('multi', consts('PCfg_A', [6, 248], [0, 1, 2], [0, 1, 3, 7, 8], [3, 7], ['L', 'M'], multi=True), w2, 'dev'),
            ('second-round', consts('PCfg_A', [6, 248], [0, 1, 2, 254], [0, 1, 3, 7, 8], [3, 7], ['L', 'M'], rounds=2), w2, 'dev'),
            ('three-ports', consts('PCfg_T', [6, 248], [0, 1, 2], [0, 1, 7, 8], [3, 7], ['L', 'M']), world([e2e(), e2e(), e2e()]), 'dev'),
            ('slave-only-start', consts('PCfg_A', [248], [0, 1, 254], [0, 1, 7, 8], [3, 7], ['L'], so0=True), world([e2e(), e2e()], so=True), 'dev'),
        ]
    for name, c, w, prof in suites:
        run_case_suite('C05', v, acc, 'C05-' + name, 'MCBmca', c, w, seed, owns, [], invariants=inv, profile=prof)
    # laws of the comparison (TLC evaluates the ASSUMEs)
    cfg = os.path.join(outdir('cfg'), 'C05-laws.cfg')
    write_cfg(cfg, spec=None) if False else open(cfg, 'w').write('CHECK_DEADLOCK FALSE\n')
    stats, text = run_tlc('MCBmcaLaws.tla', cfg, 'C05-laws', workers=4, timeout=600)
    laws_ok = 'No error has been found' in text
    if not laws_ok:
        p = os.path.join(outdir('replay', 'C05-laws'), 'laws.txt')
        open(p, 'w').write(text[-5000:])
        v.add({'kind': 'tlc', 'key': 'tlc:laws', 'detail': 'a law of the data set comparison is false on the finite domain', 'replay': p})
    return finish('C05', tier, seed, 'model_checking', v, acc, t0,
                  'TLC enumerates every case of the configured lattice (own clockClass x prior port states x per-port qualified candidates '
                  '(sender below/above the receiver, grandmaster record differing from the own data set in the first deciding attribute of '
                  'Fig. 34, stepsRemoved) x order in which the host passes the ports); each case is one script replayed on a real PtpInstance; '
                  'the oracle is module Bmca, transcribed from IEEE 1588-2019 Fig. 33-35; non-trivial/distinct as for edges',
                  COMMON_ASSUME + ['module Bmca is a faithful transcription of IEEE 1588-2019 Figures 33-35 (with the deviations statime documents)',
                                   'candidates are qualified by two consecutive Announces each'],
                  extra_cov={'comparison_laws_checked': ['Antisymmetric', 'DifferentGmStrict', 'TiesAreErrors', 'BetterTransitive', 'NoCycle', 'D0Total'],
                             'comparison_laws_hold': laws_ok})



# ------------------------------------------------------------------------------------------------ C06

def plain_tlc(prop, verdict, acc, name, module, constants, invariants=(), properties=(), timeout=900, workers=8, extra=(), constraint='Bound', view='View',
              expect_violation=None):
    cfg = os.path.join(outdir('cfg'), name + '.cfg')
    write_cfg(cfg, constants=constants, invariants=invariants, properties=properties, view=view, constraint=constraint, action_constraint='Norm')
    stats, text = run_tlc(module + '.tla', cfg, name, workers=workers, timeout=timeout, extra=extra)
    if stats['errors'] and not stats['violated']:
        raise ToolError('TLC error in %s: %s' % (name, stats['errors'][:2]))
    acc.add(name, stats)
    if stats['violated']:
        stats['text_trace'] = vlib.extract_trace(text)
        p = write_tlc_counterexample(prop, name, stats)
        verdict.add({'kind': 'tlc', 'key': 'tlc:' + ','.join(stats['violated']), 'detail': 'TLC: %s violated in %s' % (stats['violated'], name),
                     'replay': p, 'suite': name})
    elif expect_violation:
        verdict.notes.append('%s: expected design-level counterexample to %s was not found' % (name, expect_violation))
    return stats


def check_C06(tier, seed):
    t0 = time.time()
    build('dev')
    v = Verdict('C06')
    acc = Acc()
    q = tier == 'quick'
    inv = ['NeedTwo', 'NeverUnqualified', 'Expires', 'Sticks']
    owns = ['pst', 'ppi', 'gm', 'steps', 'snap.fml', 'snap.rm']
    base = dict(INST_CONST)
    base.update({'PCfg': ('<-', 'PCfg_E'), 'StepsOf255': 255})
    w1 = world([e2e()])
    def c(masters, **kw):
        d = dict(base)
        d['Masters'] = tla_set(masters)
        d.update(kw)
        return d
    run_inst_suite('C06', v, acc, 'C06-two-masters', 'MCFm', c([2, 9]), w1, 8 if q else 10, seed, owns, ['C06'], invariants=inv)
    run_inst_suite('C06', v, acc, 'C06-one-master-deep', 'MCFm', c([2]), w1, 9 if q else 13, seed, owns, ['C06'], invariants=inv)
    run_inst_suite('C06', v, acc, 'C06-steps-255', 'MCFm', c([2, 4]), w1, 7 if q else 9, seed, owns, ['C06'], invariants=inv)
    run_inst_suite('C06', v, acc, 'C06-three-masters-sim', 'MCFm', c([2, 3, 9]), w1, 70, seed, owns, ['C06'], invariants=inv,
                   simulate=(15 if q else 300, 60))
    if not q:
        run_inst_suite('C06', v, acc, 'C06-three-masters', 'MCFm', c([2, 3, 9]), w1, 8, seed, owns, ['C06'], invariants=inv)
        run_inst_suite('C06', v, acc, 'C06-capacity-sim', 'MCFm', c([2, 3, 9, 11, 12, 13, 14, 15, 16]), w1, 90, seed, owns, ['C06'],
                       invariants=['NeedTwo', 'NeverUnqualified'], simulate=(150, 80))
    # the intended design (distinct messages only) satisfies the strict statement ...
    plain_tlc('C06', v, acc, 'C06-intended-design', 'MCFm', c([2, 9], DevDup=False, Depth=8 if q else 10), invariants=inv + ['NeedTwoDistinct'])
    # ... the code's behaviour (a repeated sequenceId is stored again) does not: recorded finding, any other counterexample is new
    plain_tlc('C06', v, acc, 'C06-as-implemented-strict', 'MCFm', c([2], Depth=5), invariants=['NeedTwoDistinct'], expect_violation='NeedTwoDistinct')
    return finish('C06', tier, seed, 'model_checking', v, acc, t0, EDGE_RULE,
                  COMMON_ASSUME + ['the announce interval equals the BMCA interval (ages advance by one per BMCA run)',
                                   'arrival patterns: per epoch and master any mix of next / duplicate / stale / skipped sequence ids, ids straddling 65535->0'],
                  exhaustive=False if q else False)


CHECKS = {
    'C06': check_C06,
    'C05': check_C05,
    'C08': check_C08,
}


def setup():
    build('dev')
    build('release')
    print('setup: harness built (dev %.1fs, release %.1fs)' % (vlib._built.get('dev', 0), vlib._built.get('release', 0)))
    return 0
