"""Per-property checks. Each CHECKS[id](tier, seed) returns the exit code."""
import json, os, time, subprocess, sys, glob, shutil
import vlib
from vlib import (ToolError, build, run_edges, run_tlc, write_cfg, outdir, Verdict, judge_edges, write_evidence,
                  write_tlc_counterexample, SPECS, ROOT, OUT, binpath)

OWN = {"id": 5, "p1": 128, "p2": 128, "class": 248, "acc": 254, "var": 65535}
TP0 = {"utc": None, "leap": 0, "tt": False, "ft": False, "ptp": False, "src": 160}


def world(ports, so=False, ptrace=False, fwd=False, empty_on_bmca=False, own=None):
    o = dict(OWN)
    if own:
        o.update(own)
    o['so'] = so
    o['ptrace'] = ptrace
    return {"own": o, "tp0": TP0, "ports": ports, "fwd": fwd, "empty_on_bmca": empty_on_bmca}


def e2e(mo=False, aml=None):
    d = {"p2p": False, "mo": mo}
    if aml is not None:
        d['aml'] = aml
    return d


def p2p(mo=False, aml=None):
    d = {"p2p": True, "mo": mo}
    if aml is not None:
        d['aml'] = aml
    return d


INST_CONST = {'Own': ('<-', 'MC_Own'), 'OwnP': ('<-', 'MC_OwnP'), 'Q0': ('<-', 'MC_Q0'), 'TP0': ('<-', 'MC_TP0'),
              'SO0': False, 'PTrace': False, 'Fwd': False, 'EmptyOnBmca': False}

# variants of the instance configuration shared by several properties: name -> (constants, world)
INST_VARIANTS = {
    'A': ({'PCfg': ('<-', 'PCfg_A')}, world([e2e(), e2e()])),
    'B': ({'PCfg': ('<-', 'PCfg_B')}, world([e2e(), e2e(mo=True)])),
    'C': ({'PCfg': ('<-', 'PCfg_C')}, world([e2e(aml=[2]), e2e()])),
    'D': ({'PCfg': ('<-', 'PCfg_D')}, world([e2e(), p2p(), e2e(mo=True)])),
    'E': ({'PCfg': ('<-', 'PCfg_E')}, world([e2e()])),
    'S': ({'PCfg': ('<-', 'PCfg_A'), 'SO0': True}, world([e2e(), e2e()], so=True)),
}


def suite_files(name, module, constants, wjson, **cfgkw):
    d = outdir('cfg')
    cfg = os.path.join(d, name + '.cfg')
    write_cfg(cfg, constants=constants, **cfgkw)
    wpath = os.path.join(d, name + '.world.json')
    with open(wpath, 'w') as f:
        json.dump(wjson, f)
    return cfg, wpath


class Acc:
    """accumulates coverage over the suites of one check"""
    def __init__(self):
        self.states = 0
        self.transitions = 0
        self.edges = 0
        self.events = 0
        self.distinct = 0
        self.samples = []
        self.suites = []
        self.tlc_only = []

    def add(self, name, stats, rep=None):
        self.states += stats['distinct']
        self.transitions += stats['generated']
        row = {'suite': name, 'distinct_states': stats['distinct'], 'states_generated': stats['generated'], 'depth': stats['depth'],
               'invariants_violated': stats['violated']}
        if rep is not None:
            self.edges += rep['edges']
            self.events += rep['events']
            self.distinct += rep['distinct_nontrivial']
            row.update({'edges_replayed': rep['edges'], 'api_calls': rep['events'], 'mismatch_by_field': rep['mismatch_by_field'],
                        'predicate_violations': rep['predicate_violations'], 'last_event_kinds': rep['last_event_kinds']})
            for s in rep['samples']:
                if len(self.samples) < 5:
                    self.samples.append(s)
        self.suites.append(row)


def run_inst_suite(prop, verdict, acc, name, module, constants, wjson, depth, seed, owns, preds, invariants=(), properties=(),
                   profile='dev', timeout=1500, workers=8, extra_const=None, simulate=None):
    c = dict(constants)
    c['Depth'] = depth
    if extra_const:
        c.update(extra_const)
    cfg, wpath = suite_files(name, module, c, wjson, invariants=invariants, properties=properties, view='View',
                             constraint='Bound', action_constraint='Emit')
    extra = []
    if simulate:
        extra = ['-simulate', 'num=%d' % simulate[0], '-depth', str(simulate[1]), '-seed', str(seed)]
    stats, rep = run_edges(module + '.tla', cfg, wpath, name, seed, profile=profile, timeout=timeout, workers=workers, extra=extra)
    acc.add(name, stats, rep)
    if stats['violated']:
        p = write_tlc_counterexample(prop, name, stats)
        verdict.add({'kind': 'tlc', 'key': 'tlc:' + ','.join(stats['violated']), 'detail': 'TLC: %s violated in %s' % (stats['violated'], name),
                     'replay': p, 'suite': name})
    judge_edges(verdict, rep, owns, preds, name)
    return stats, rep


def finish(prop, tier, seed, level, verdict, acc, t0, rule, assumptions, extra_cov=None, exhaustive=True):
    rc = verdict.finish()
    cov = {'states': acc.states, 'transitions': acc.transitions, 'traces_validated_against_impl': acc.edges,
           'samples': acc.samples or [{'note': 'no sample recorded'}],
           'evaluations': acc.edges, 'distinct_nontrivial': acc.distinct, 'rule': rule,
           'api_calls_on_real_code': acc.events, 'suites': acc.suites, 'exhaustive': exhaustive,
           'known_findings_seen': verdict.known, 'notes': verdict.notes}
    if extra_cov:
        cov.update(extra_cov)
    write_evidence(prop, tier, seed, level, cov, assumptions, time.time() - t0, len(verdict.violations))
    return rc


COMMON_ASSUME = [
    'TLC, SANY and the CommunityModules are correct',
    'the harness projection, its independent codec and the concretisation of abstract values are correct (self-tested in setup)',
    'abstraction: clock identities and attributes range over small order-preserving domains; ages are counted in BMCA steps',
]
EDGE_RULE = ('every edge (state, event, successor) of the bounded reachable graph of the specification is replayed as one test on fresh real '
             'objects and the projection of the real state is compared with the successor; an edge is non-trivial if its last call '
             'returns actions or changes the observable state; distinct = distinct (last event, pre port states, post port states, '
             'returned actions, filter calls) tuples')


# ------------------------------------------------------------------------------------------------ C08

def check_C08(tier, seed):
    t0 = time.time()
    build('dev')
    v = Verdict('C08')
    acc = Acc()
    inv = ['OneSlave', 'MasterOnlyNeverSlave', 'SlaveOnlyInit', 'SlaveOnlyLate']
    props_ = ['Emitters', 'ClockOwner']
    owns = ['clk']
    depth = {'A': 6, 'B': 5, 'S': 5, 'D': 4, 'E': 6} if tier == 'quick' else {'A': 8, 'B': 7, 'C': 7, 'S': 7, 'D': 6, 'E': 9}
    build('release')
    for var, d in depth.items():
        consts, w = INST_VARIANTS[var]
        c = dict(INST_CONST)
        c.update(consts)
        c['WithQ'] = (var in ('A', 'E'))
        # both profiles: debug assertions can turn a role violation into a panic (C03's business) and hide it here
        for prof in ('dev', 'release'):
            run_inst_suite('C08', v, acc, 'C08-inst-%s-%s' % (var, prof), 'MCInst', c, w, d, seed, owns, ['C08'],
                           invariants=inv, properties=props_, profile=prof)
    return finish('C08', tier, seed, 'model_checking', v, acc, t0, EDGE_RULE,
                  COMMON_ASSUME + ['depth-bounded exhaustive exploration of the host-call alphabet (Announces from a better and a worse master '
                                   'incl. duplicate/stale/skipped sequence ids, all timers, BMCA, run-time slave-only and quality changes) for '
                                   'five port configurations'])


CHECKS = {
    'C08': check_C08,
}


def setup():
    build('dev')
    build('release')
    print('setup: harness built (dev %.1fs, release %.1fs)' % (vlib._built.get('dev', 0), vlib._built.get('release', 0)))
    return 0
