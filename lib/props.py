"""Per-property checks. Each CHECKS[id](tier, seed) returns the exit code."""
import json, os, re, time, subprocess, sys, glob, shutil
import vlib
from vlib import (ToolError, build, run_edges, run_tlc, write_cfg, outdir, Verdict, judge_edges, write_evidence,
                  write_tlc_counterexample, SPECS, ROOT, OUT, binpath)

OWN = {"id": 5, "p1": 128, "p2": 128, "class": 248, "acc": 254, "var": 65535}
TP0 = {"utc": None, "leap": 0, "tt": False, "ft": False, "ptp": False, "src": 160}


def world(ports, so=False, ptrace=False, fwd=False, empty_on_bmca=False, own=None):
    o = dict(OWN)
    if own:
        o.update(own)
    o['so'] = so
    o['ptrace'] = ptrace
    return {"own": o, "tp0": TP0, "ports": ports, "fwd": fwd, "empty_on_bmca": empty_on_bmca}


def e2e(mo=False, aml=None):
    d = {"p2p": False, "mo": mo}
    if aml is not None:
        d['aml'] = aml
    return d


def p2p(mo=False, aml=None):
    d = {"p2p": True, "mo": mo}
    if aml is not None:
        d['aml'] = aml
    return d


INST_CONST = {'Own': ('<-', 'MC_Own'), 'OwnP': ('<-', 'MC_OwnP'), 'Q0': ('<-', 'MC_Q0'), 'TP0': ('<-', 'MC_TP0'),
              'SO0': False, 'PTrace': False, 'Fwd': False, 'EmptyOnBmca': False, 'DevDup': True, 'SeqMod': 65536, 'Ghost': True}

# variants of the instance configuration shared by several properties: name -> (constants, world)
INST_VARIANTS = {
    'A': ({'PCfg': ('<-', 'PCfg_A')}, world([e2e(), e2e()])),
    'B': ({'PCfg': ('<-', 'PCfg_B')}, world([e2e(), e2e(mo=True)])),
    'C': ({'PCfg': ('<-', 'PCfg_C')}, world([e2e(aml=[2]), e2e()])),
    'D': ({'PCfg': ('<-', 'PCfg_D')}, world([e2e(), p2p(), e2e(mo=True)])),
    'E': ({'PCfg': ('<-', 'PCfg_E')}, world([e2e()])),
    'S': ({'PCfg': ('<-', 'PCfg_A'), 'SO0': True}, world([e2e(), e2e()], so=True)),
}


def suite_files(name, module, constants, wjson, **cfgkw):
    d = outdir('cfg')
    cfg = os.path.join(d, name + '.cfg')
    write_cfg(cfg, constants=constants, **cfgkw)
    wpath = os.path.join(d, name + '.world.json')
    with open(wpath, 'w') as f:
        json.dump(wjson, f)
    return cfg, wpath


class Acc:
    """accumulates coverage over the suites of one check"""
    def __init__(self):
        self.states = 0
        self.transitions = 0
        self.edges = 0
        self.events = 0
        self.distinct = 0
        self.samples = []
        self.suites = []
        self.tlc_only = []

    def add(self, name, stats, rep=None):
        self.states += stats['distinct']
        self.transitions += stats['generated']
        row = {'suite': name, 'distinct_states': stats['distinct'], 'states_generated': stats['generated'], 'depth': stats['depth'],
               'invariants_violated': stats['violated']}
        if rep is not None:
            self.edges += rep['edges']
            self.events += rep['events']
            self.distinct += rep['distinct_nontrivial']
            row.update({'edges_replayed': rep['edges'], 'api_calls': rep['events'], 'mismatch_by_field': rep['mismatch_by_field'],
                        'predicate_violations': rep['predicate_violations'], 'last_event_kinds': rep['last_event_kinds']})
            for s in rep['samples']:
                if len(self.samples) < 5:
                    self.samples.append(s)
        self.suites.append(row)


def run_inst_suite(prop, verdict, acc, name, module, constants, wjson, depth, seed, owns, preds, invariants=(), properties=(),
                   profile='dev', timeout=None, workers=8, extra_const=None, simulate=None):
    if timeout is None:
        timeout = 1500 if os.environ.get('VERIF_TIER_RUNNING', 'quick') == 'quick' else 5400
    c = dict(constants)
    c['Depth'] = depth
    if extra_const:
        c.update(extra_const)
    cfg, wpath = suite_files(name, module, c, wjson, invariants=invariants, properties=properties, view='View',
                             constraint='Bound', action_constraint='Emit')
    extra = []
    if simulate:
        extra = ['-simulate', 'num=%d' % simulate[0], '-depth', str(simulate[1]), '-seed', str(seed)]
    stats, rep = run_edges(module + '.tla', cfg, wpath, name, seed, profile=profile, timeout=timeout, workers=workers, extra=extra)
    acc.add(name, stats, rep)
    if stats['violated']:
        p = write_tlc_counterexample(prop, name, stats)
        verdict.add({'kind': 'tlc', 'key': 'tlc:' + ','.join(stats['violated']), 'detail': 'TLC: %s violated in %s' % (stats['violated'], name),
                     'replay': p, 'suite': name})
    judge_edges(verdict, rep, owns, preds, name)
    return stats, rep


def finish(prop, tier, seed, level, verdict, acc, t0, rule, assumptions, extra_cov=None, exhaustive=True):
    rc = verdict.finish()
    cov = {'states': acc.states, 'transitions': acc.transitions, 'traces_validated_against_impl': acc.edges,
           'samples': acc.samples or [{'note': 'no sample recorded'}],
           'evaluations': acc.edges, 'distinct_nontrivial': acc.distinct, 'rule': rule,
           'api_calls_on_real_code': acc.events, 'suites': acc.suites, 'exhaustive': exhaustive,
           'known_findings_seen': verdict.known, 'notes': verdict.notes}
    if extra_cov:
        cov.update(extra_cov)
    write_evidence(prop, tier, seed, level, cov, assumptions, time.time() - t0, len(verdict.violations))
    return rc


COMMON_ASSUME = [
    'TLC, SANY and the CommunityModules are correct',
    'the harness projection, its independent codec and the concretisation of abstract values are correct (self-tested in setup)',
    'abstraction: clock identities and attributes range over small order-preserving domains; ages are counted in BMCA steps',
]
EDGE_RULE = ('every edge (state, event, successor) of the bounded reachable graph of the specification is replayed as one test on fresh real '
             'objects and the projection of the real state is compared with the successor; an edge is non-trivial if its last call '
             'returns actions or changes the observable state; distinct = distinct (last event, pre port states, post port states, '
             'returned actions, filter calls) tuples')


# ------------------------------------------------------------------------------------------------ C08

def check_C08(tier, seed):
    t0 = time.time()
    build('dev')
    v = Verdict('C08')
    acc = Acc()
    inv = ['OneSlave', 'MasterOnlyNeverSlave', 'SlaveOnlyInit', 'SlaveOnlyLate']
    props_ = ['Emitters', 'ClockOwner']
    owns = ['clk']
    depth = {'A': 6, 'B': 5, 'S': 5, 'D': 4, 'E': 6} if tier == 'quick' else {'A': 7, 'B': 6, 'C': 6, 'S': 6, 'D': 5, 'E': 8}
    build('release')
    for var, d in depth.items():
        consts, w = INST_VARIANTS[var]
        c = dict(INST_CONST)
        c.update(consts)
        c['WithQ'] = (var in ('A', 'E'))
        # both profiles: debug assertions can turn a role violation into a panic (C03's business) and hide it here
        for prof in ('dev', 'release'):
            run_inst_suite('C08', v, acc, 'C08-inst-%s-%s' % (var, prof), 'MCInst', c, w, d, seed, owns, ['C08'],
                           invariants=inv, properties=props_, profile=prof)
    # Binding B: recorded random histories of the real instance validated against TraceInstance.tla
    run_inst_traces('C08', v, acc, ['pst', 'clk', 'flt', 'out.len'], tier, seed, variants=('A', 'B', 'D', 'S'))
    return finish('C08', tier, seed, 'model_checking', v, acc, t0, EDGE_RULE,
                  COMMON_ASSUME + ['depth-bounded exhaustive exploration of the host-call alphabet (Announces from a better and a worse master '
                                   'incl. duplicate/stale/skipped sequence ids, all timers, BMCA, run-time slave-only and quality changes) for '
                                   'five port configurations'])



# ------------------------------------------------------------------------------------------------ C05

def tla_set(xs):
    def f(x):
        if isinstance(x, bool):
            return 'TRUE' if x else 'FALSE'
        if isinstance(x, str):
            return '"%s"' % x
        return str(x)
    return '{' + ', '.join(f(x) for x in xs) + '}'


def run_case_suite(prop, verdict, acc, name, module, constants, wjson, seed, owns, preds, invariants=(), profile='dev', timeout=1800, workers=8):
    cfg, wpath = suite_files(name, module, constants, wjson, invariants=invariants, view='View', action_constraint='Emit')
    stats, rep = run_edges(module + '.tla', cfg, wpath, name, seed, profile=profile, timeout=timeout, workers=workers)
    acc.add(name, stats, rep)
    if stats['violated']:
        p = write_tlc_counterexample(prop, name, stats)
        verdict.add({'kind': 'tlc', 'key': 'tlc:' + ','.join(stats['violated']), 'detail': 'TLC: %s violated in %s' % (stats['violated'], name),
                     'replay': p, 'suite': name})
    judge_edges(verdict, rep, owns, preds, name)
    return stats, rep


def run_apalache(prop, verdict, module, n_laws, what, timeout=1500):
    """Symbolic check (apalache-mc, --length=0: the invariant `Laws` on every initial state, i.e. for all values the typed Init admits).
    Returns True iff every law holds; a refuted law is a violation; anything else is a tool error."""
    apa_dir = outdir('apalache', prop); vlib.clean_dir(apa_dir)
    try:
        ra = subprocess.run(['apalache-mc', 'check', '--init=Init', '--next=Next', '--inv=Laws', '--length=0', '--out-dir=' + apa_dir, os.path.join(SPECS, module)],
                            cwd=apa_dir, stdout=subprocess.PIPE, stderr=subprocess.STDOUT, text=True, timeout=timeout)
    except subprocess.TimeoutExpired:
        raise ToolError('apalache timed out on %s' % module)
    open(os.path.join(outdir('logs'), '%s-apalache.log' % prop), 'w').write(ra.stdout)
    ok = 'EXITCODE: OK' in ra.stdout and ra.stdout.count(' holds') >= n_laws
    if not ok:
        if 'violated' in ra.stdout:
            pth = os.path.join(outdir('replay', prop + '-laws'), 'apalache.txt')
            open(pth, 'w').write(ra.stdout[-6000:])
            verdict.add({'kind': 'tlc', 'key': 'apalache:laws', 'detail': '%s (Apalache counterexample)' % what, 'replay': pth})
        else:
            raise ToolError('apalache failed on %s: %s' % (module, ra.stdout[-800:]))
    shutil.rmtree(apa_dir, ignore_errors=True)
    return ok


def check_C05(tier, seed):
    t0 = time.time()
    build('dev')
    build('release')
    v = Verdict('C05')
    acc = Acc()
    inv = ['OneSlave', 'ParentIsBest', 'OrderIndependent']
    owns = ['pst', 'ppi', 'gm', 'steps', 'tp', 'path', 'clk', 'snap.rm']
    base = dict(INST_CONST)
    q = tier == 'quick'
    def consts(pcfg, cls, steps, gset, snd, prior, multi=False, so=(False,), rounds=1, so0=False, late=False, sndports=(1,), latesecond=False):
        c = dict(base)
        c.update({'PCfg': ('<-', pcfg), 'ClsSet': tla_set(cls), 'StepSet': tla_set(steps), 'GSet': tla_set(gset), 'SndSet': tla_set(snd),
                  'PriorSet': tla_set(prior), 'Multi': multi, 'SoSet': tla_set(so), 'Rounds': rounds, 'SO0': so0,
                  'LateSet': ('<-', 'Late_All' if late else 'Late_None'), 'SndPorts': tla_set(sndports), 'LateSecond': latesecond})
        return c
    w2 = world([e2e(), e2e()])
    suites = []
    if q:
        suites += [
            ('two-ports', consts('PCfg_A', [6, 127, 128, 248, 255], [0, 1, 254], [0, 1, 3, 7, 8], [3, 7], ['L', 'M']), w2, 'dev'),
            ('master-only', consts('PCfg_B', [6, 248], [0, 1], [1, 7, 8], [3, 7], ['L', 'M'], so=(False, True)), world([e2e(), e2e(mo=True)]), 'release'),
            ('multi', consts('PCfg_A', [248], [0, 1], [1, 7, 8], [3, 7], ['L'], multi=True), w2, 'dev'),
            ('second-round', consts('PCfg_A', [6, 248], [0, 1, 2], [0, 1, 7, 8], [3, 7], ['L', 'M'], rounds=2), w2, 'dev'),
            ('late-masters', consts('PCfg_A', [6, 248], [0, 1], [1, 7, 8], [3, 7], ['L', 'M'], rounds=2, late=True), w2, 'dev'),
            # two ports of one foreign clock are two masters: the second one appears after the port is already slave of the first
            ('same-clock-two-ports', consts('PCfg_A', [248], [0, 1], [1, 7], [3], ['L'], multi=True, rounds=2, sndports=(1, 2), latesecond=True), w2, 'dev'),
            ('three-ports', consts('PCfg_T', [248], [0, 1], [1, 8], [3, 7], ['L', 'M']), world([e2e(), e2e(), e2e()]), 'dev'),
        ]
    else:
        suites += [
            ('two-ports', consts('PCfg_A', [6, 127, 128, 248, 255], [0, 1, 2, 3, 254], [0, 1, 2, 3, 4, 5, 6, 7, 8, 9, 10], [3, 7], ['L', 'M']), w2, 'dev'),
            ('two-ports-rel', consts('PCfg_A', [6, 248], [0, 1, 2, 254], [0, 1, 3, 4, 5, 6, 7, 8], [3, 7], ['L', 'M']), w2, 'release'),
            ('master-only', consts('PCfg_B', [6, 127, 248], [0, 1, 2, 254], [0, 1, 3, 7, 8], [3, 7], ['L', 'M'], so=(False, True)), world([e2e(), e2e(mo=True)]), 'release'),
            ('master-only-dev', consts('PCfg_B', [6, 248], [0, 1, 254], [0, 1, 7, 8], [3, 7], ['L', 'M']), world([e2e(), e2e(mo=True)]), 'dev'),
            ('multi', consts('PCfg_A', [248], [0, 1], [0, 1, 3, 8], [3, 7], ['L'], multi=True), w2, 'dev'),
            ('second-round', consts('PCfg_A', [6, 248], [0, 1, 2, 254], [0, 1, 3, 7, 8], [3, 7], ['L', 'M'], rounds=2), w2, 'dev'),
            ('late-masters', consts('PCfg_A', [6, 248], [0, 1, 2], [0, 1, 3, 7, 8], [3, 7], ['L', 'M'], rounds=2, late=True), w2, 'dev'),
            ('same-clock-two-ports', consts('PCfg_A', [248], [0, 1], [1, 7, 8], [3], ['L'], multi=True, rounds=2, sndports=(1, 2), latesecond=True), w2, 'dev'),
            ('late-masters-multi', consts('PCfg_A', [248], [0, 1], [1, 7, 8], [3, 7], ['L'], multi=True, rounds=2, late=True), w2, 'dev'),
            ('late-three-ports', consts('PCfg_T', [248], [0, 1], [1, 8], [3, 7], ['L'], rounds=2, late=True), world([e2e(), e2e(), e2e()]), 'dev'),
            ('three-ports', consts('PCfg_T', [6, 248], [0, 1, 2], [0, 1, 7, 8], [3, 7], ['L', 'M']), world([e2e(), e2e(), e2e()]), 'dev'),
            ('slave-only-start', consts('PCfg_A', [248], [0, 1, 254], [0, 1, 7, 8], [3, 7], ['L'], so0=True), world([e2e(), e2e()], so=True), 'dev'),
        ]
    for name, c, w, prof in suites:
        run_case_suite('C05', v, acc, 'C05-' + name, 'MCBmca', c, w, seed, owns, [], invariants=inv, profile=prof)
    # laws of the comparison (TLC evaluates the ASSUMEs)
    cfg = os.path.join(outdir('cfg'), 'C05-laws.cfg')
    write_cfg(cfg, spec=None) if False else open(cfg, 'w').write('CHECK_DEADLOCK FALSE\n')
    stats, text = run_tlc('MCBmcaLaws.tla', cfg, 'C05-laws', workers=4, timeout=600)
    laws_ok = 'No error has been found' in text
    if not laws_ok:
        p = os.path.join(outdir('replay', 'C05-laws'), 'laws.txt')
        open(p, 'w').write(text[-5000:])
        v.add({'kind': 'tlc', 'key': 'tlc:laws', 'detail': 'a law of the data set comparison is false on the finite domain', 'replay': p})
    # Binding B: recorded random histories of the real instance validated against TraceInstance.tla
    run_inst_traces('C05', v, acc, ['pst', 'ppi', 'gm', 'steps', 'tp', 'path', 'clk', 'snap.rm'], tier, seed, variants=('A', 'B', 'D', 'P', 'S'))
    # the same laws for ALL integer attribute values: Apalache on the very text of BmcaCompare (symbolic, no enumeration)
    apa_ok = run_apalache('C05', v, 'ApaBmca.tla', 5, 'a law of the data set comparison is false for some integer values')
    return finish('C05', tier, seed, 'model_checking', v, acc, t0,
                  'TLC enumerates every case of the configured lattice (own clockClass x prior port states x per-port qualified candidates '
                  '(sender below/above the receiver, grandmaster record differing from the own data set in the first deciding attribute of '
                  'Fig. 34, stepsRemoved) x order in which the host passes the ports); each case is one script replayed on a real PtpInstance; '
                  'the oracle is module Bmca, transcribed from IEEE 1588-2019 Fig. 33-35; non-trivial/distinct as for edges',
                  COMMON_ASSUME + ['module Bmca is a faithful transcription of IEEE 1588-2019 Figures 33-35 (with the deviations statime documents)',
                                   'candidates are qualified by two consecutive Announces each'],
                  extra_cov={'comparison_laws_checked': ['Antisymmetric', 'DifferentGmStrict', 'TiesAreErrors', 'BetterTransitive', 'NoCycle', 'D0Total'],
                             'comparison_laws_hold': laws_ok,
                             'comparison_laws_unbounded': {'tool': 'apalache-mc --length=0 on specs/ApaBmca.tla (all integer attribute values)',
                                                           'laws': ['Antisymmetric', 'DifferentGmStrict', 'TiesAreErrors', 'BetterTransitiveGm', 'BetterTransitive'], 'hold': apa_ok}})



# ------------------------------------------------------------------------------------------------ C06

def plain_tlc(prop, verdict, acc, name, module, constants, invariants=(), properties=(), timeout=900, workers=8, extra=(), constraint='Bound', view='View',
              expect_violation=None):
    cfg = os.path.join(outdir('cfg'), name + '.cfg')
    write_cfg(cfg, constants=constants, invariants=invariants, properties=properties, view=view, constraint=constraint, action_constraint='Norm')
    stats, text = run_tlc(module + '.tla', cfg, name, workers=workers, timeout=timeout, extra=extra)
    if stats['errors'] and not stats['violated']:
        raise ToolError('TLC error in %s: %s' % (name, stats['errors'][:2]))
    acc.add(name, stats)
    if stats['violated']:
        stats['text_trace'] = vlib.extract_trace(text)
        p = write_tlc_counterexample(prop, name, stats)
        verdict.add({'kind': 'tlc', 'key': 'tlc:' + ','.join(stats['violated']), 'detail': 'TLC: %s violated in %s' % (stats['violated'], name),
                     'replay': p, 'suite': name})
    elif expect_violation:
        verdict.notes.append('%s: expected design-level counterexample to %s was not found' % (name, expect_violation))
    return stats


def check_C06(tier, seed):
    t0 = time.time()
    build('dev')
    v = Verdict('C06')
    acc = Acc()
    q = tier == 'quick'
    inv = ['NeedTwo', 'NeverUnqualified', 'Expires', 'Sticks']
    owns = ['pst', 'ppi', 'gm', 'steps', 'snap.fml', 'snap.rm']
    base = dict(INST_CONST)
    base.update({'PCfg': ('<-', 'PCfg_E'), 'StepsOf255': 255, 'Start2': 65534, 'Sibling': False})
    w1 = world([e2e()])
    def c(masters, **kw):
        d = dict(base)
        d['Masters'] = tla_set(masters)
        d.update(kw)
        return d
    run_inst_suite('C06', v, acc, 'C06-two-masters', 'MCFm', c([2, 9]), w1, 8 if q else 10, seed, owns, ['C06'], invariants=inv)
    run_inst_suite('C06', v, acc, 'C06-one-master-deep', 'MCFm', c([2]), w1, 9 if q else 12, seed, owns, ['C06'], invariants=inv, timeout=1500 if q else 4000)
    run_inst_suite('C06', v, acc, 'C06-steps-255', 'MCFm', c([2, 4]), w1, 7 if q else 9, seed, owns, ['C06'], invariants=inv)
    # the serial-number comparison has a second seam at 32767 -> 32768
    run_inst_suite('C06', v, acc, 'C06-mid-wrap', 'MCFm', c([2], Start2=32766), w1, 8 if q else 11, seed, owns, ['C06'], invariants=inv)
    # announce (= BMCA) interval of half a second and of two seconds: the window is counted in announce intervals whatever their length
    run_inst_suite('C06', v, acc, 'C06-half-second', 'MCFm', c([2, 9]), world([dict(e2e(), log_ann=-1)]), 7 if q else 9, seed, owns, ['C06'], invariants=inv)
    run_inst_suite('C06', v, acc, 'C06-two-seconds', 'MCFm', c([2]), world([dict(e2e(), log_ann=1)]), 7 if q else 9, seed, owns, ['C06'], invariants=inv)
    # Announces of a sibling port of the own instance (same clock identity) never enter the list
    run_inst_suite('C06', v, acc, 'C06-sibling', 'MCFm', c([2], Sibling=True), w1, 7 if q else 9, seed, owns, ['C06'], invariants=inv)
    run_inst_suite('C06', v, acc, 'C06-three-masters-sim', 'MCFm', c([2, 3, 9]), w1, 70, seed, owns, ['C06'], invariants=inv,
                   simulate=(15 if q else 300, 60))
    if not q:
        run_inst_suite('C06', v, acc, 'C06-three-masters', 'MCFm', c([2, 3, 9]), w1, 8, seed, owns, ['C06'], invariants=inv)
        run_inst_suite('C06', v, acc, 'C06-capacity-sim', 'MCFm', c([2, 3, 9, 11, 12, 13, 14, 15, 16]), w1, 50, seed, owns, ['C06'],
                       invariants=['NeedTwo', 'NeverUnqualified'], simulate=(40, 45))
    # the intended design (distinct messages only) satisfies the strict statement ...
    plain_tlc('C06', v, acc, 'C06-intended-design', 'MCFm', c([2, 9], DevDup=False, Depth=8 if q else 10), invariants=inv + ['NeedTwoDistinct'])
    # ... the code's behaviour (a repeated sequenceId is stored again) does not: recorded finding, any other counterexample is new
    plain_tlc('C06', v, acc, 'C06-as-implemented-strict', 'MCFm', c([2], Depth=5), invariants=['NeedTwoDistinct'], expect_violation='NeedTwoDistinct')
    # Binding B: recorded random histories of the real instance validated against TraceInstance.tla
    run_inst_traces('C06', v, acc, ['snap.fml', 'pst', 'ppi'], tier, seed, variants=('A', 'M', 'K'))
    return finish('C06', tier, seed, 'model_checking', v, acc, t0, EDGE_RULE,
                  COMMON_ASSUME + ['the announce interval equals the BMCA interval (ages advance by one per BMCA run)',
                                   'arrival patterns: per epoch and master any mix of next / duplicate / stale / skipped sequence ids, ids straddling 65535->0'],
                  exhaustive=False if q else False)



# ------------------------------------------------------------------------------------------------ MCPort based checks

PORT_BASE = dict(INST_CONST)
PORT_BASE.update({'NSync': 2, 'NDelay': 2, 'TwoStepSet': '{1}', 'S0': 65534, 'MaxRep': 2, 'AnnVar': '{1}', 'NPd': 2,
                  'Prefix': ('<-', 'PrefixNone'), 'PCfg': ('<-', 'PCfg_E')})


def port_consts(fam, **kw):
    c = dict(PORT_BASE)
    c['Fam'] = tla_set(fam)
    for k, v in kw.items():
        c[k] = v
    return c


def asym(ports):
    for p in ports:
        p['asym'] = 'asym'
    return ports


def check_C09(tier, seed):
    t0 = time.time()
    build('dev')
    v = Verdict('C09')
    acc = Acc()
    q = tier == 'quick'
    inv = ['SingleExchange', 'DelayIdsMatch']
    owns = ['flt', 'snap.sync', 'snap.delay', 'snap.lrs', 'snap.md', 'clk']
    w = world(asym([e2e()]))
    fam = ['sync', 'dresp', 'ts', 'tdreq']
    seeds = [seed] if q else [seed, seed + 1, seed + 2]
    # two exchanges (one two-step, one one-step, ids 65535 and 0), two delay exchanges, every message up to twice, any order
    run_inst_suite('C09', v, acc, 'C09-two-syncs', 'MCPort', port_consts(fam, Prefix=('<-', 'PrefixSlave')), w, 12 if q else 16, seed, owns, ['C09'], invariants=inv)
    # three exchanges, each message once
    run_inst_suite('C09', v, acc, 'C09-three-syncs', 'MCPort',
                   port_consts(fam, Prefix=('<-', 'PrefixSlave'), NSync=3, TwoStepSet='{1, 3}', MaxRep=1), w, 11 if q else 14, seed + 7, owns, ['C09'], invariants=inv)
    # both two-step with interleaved follow-ups, plus parent Announces and BMCA in between
    run_inst_suite('C09', v, acc, 'C09-two-step-bmca', 'MCPort',
                   port_consts(fam + ['annP', 'bmca'], Prefix=('<-', 'PrefixSlave'), TwoStepSet='{1, 2}', MaxRep=1), w, 8 if q else 10, seed + 13, owns, ['C09'], invariants=inv)
    if not q:
        for sd in seeds[1:]:
            run_inst_suite('C09', v, acc, 'C09-two-syncs-seed%d' % sd, 'MCPort', port_consts(fam, Prefix=('<-', 'PrefixSlave')), w, 8, sd, owns, ['C09'], invariants=inv)
        run_inst_suite('C09', v, acc, 'C09-sim', 'MCPort', port_consts(fam + ['annP', 'bmca', 'trcpt'], Prefix=('<-', 'PrefixSlave'), NSync=3, NDelay=3, TwoStepSet='{1, 3}'),
                       w, 60, seed, owns, ['C09'], invariants=inv, simulate=(200, 40))
    # Binding B: recorded random histories of the real instance validated against TraceInstance.tla
    run_inst_traces('C09', v, acc, ['flt'], tier, seed, variants=('A', 'D'))
    # network level: real masters and real slaves exchanging their own frames; every measurement must be exact
    run_netsync('C09', v, acc, tier, seed)
    return finish('C09', tier, seed, 'model_checking', v, acc, t0,
                  EDGE_RULE + '; measurements are symbolic expression trees over named timestamps/corrections in the specification and are evaluated '
                  'with per-seed concrete 128-bit values (sub-nanosecond parts, second boundaries, both signs of corrections and asymmetry) '
                  'and compared bit-exactly with the Measurement the real filter received',
                  COMMON_ASSUME + ['a recording filter stands in for the servo and returns mean_delay = the measured delay',
                                   'the host reports each transmit timestamp once (TimestampContext is not clonable)'])



def check_C10(tier, seed):
    t0 = time.time()
    build('dev')
    build('release')
    v = Verdict('C10')
    acc = Acc()
    q = tier == 'quick'
    inv = ['OneEventSend']
    props_ = ['FollowUpOnce', 'Echo', 'SeqPlusOne']
    owns = ['out.Sync', 'out.FollowUp', 'out.DelayResp', 'out.PdelayResp', 'out.PdelayRespFup', 'out.DelayReq', 'out.PdelayReq', 'out.len', 'snap.nseq',
            'out.Announce.seq', 'out.Announce.src', 'out.Announce.dom', 'out.Announce.sdo', 'out.Announce.ver', 'out.Announce.selfdec', 'out.Announce.ll', 'out.Announce.a']
    w1 = world(asym([e2e()]))
    wp = world(asym([p2p()]))
    # master port: sync/announce timers, transmit timestamps, delay requests from two requesters (ids 0 and 65535), peer delay requests
    run_inst_suite('C10', v, acc, 'C10-master', 'MCPort', port_consts(['tsync', 'tann', 'ts', 'dreq', 'pdreq'], Prefix=('<-', 'PrefixMaster')), w1,
                   6 if q else 8, seed, owns, ['C10'], invariants=inv, properties=props_)
    run_inst_suite('C10', v, acc, 'C10-master-release', 'MCPort', port_consts(['tsync', 'ts', 'dreq', 'pdreq'], Prefix=('<-', 'PrefixMaster')), w1,
                   5 if q else 7, seed + 1, owns, ['C10'], invariants=inv, properties=props_, profile='release')
    # slave and listening ports: delay requests, peer delay responses in every state, role changes in between
    run_inst_suite('C10', v, acc, 'C10-roles', 'MCPort', port_consts(['tsync', 'tdreq', 'ts', 'dreq', 'pdreq', 'annP', 'bmca', 'trcpt']), w1,
                   6 if q else 8, seed + 2, owns, ['C10'], invariants=inv, properties=props_)
    run_inst_suite('C10', v, acc, 'C10-p2p', 'MCPort', port_consts(['tsync', 'tdreq', 'ts', 'pdreq', 'trcpt'], PCfg=('<-', 'PCfg_P')), wp,
                   6 if q else 8, seed + 3, owns, ['C10'], invariants=inv, properties=props_)
    # sequence id wrap: 65540 emissions per message type through the real port
    wrap = run_driver('seqwrap', ['--count', '65540' if not q else '65540', '--seed', str(seed)], 'C10-seqwrap', timeout=600)
    acc.suites.append({'suite': 'C10-seqwrap', 'driver': 'harness/src/bin/seqwrap.rs', 'result': wrap})
    acc.events += wrap.get('calls', 0)
    for item in wrap.get('violations', []):
        v.add({'kind': 'predicate', 'key': 'C10/seqwrap', 'detail': item['detail'], 'replay': item['replay']})
    # Binding B: recorded random histories of the real instance validated against TraceInstance.tla
    run_inst_traces('C10', v, acc, ['out.Sync', 'out.FollowUp', 'out.DelayResp', 'out.PdelayResp', 'out.PdelayRespFup', 'out.DelayReq', 'out.PdelayReq', 'out.len', 'snap.nseq'], tier, seed, variants=('A', 'D'))
    # network level: what the real master ports emit is what real slave ports measure from; every measurement must be exact
    run_netsync('C10', v, acc, tier, seed)
    return finish('C10', tier, seed, 'model_checking', v, acc, t0,
                  EDGE_RULE + '; transmit/receive timestamps and correction fields are named symbols in the specification, concretised per seed over the 80-bit '
                  'range with sub-nanosecond fractions; "timestamp + correction" of an emitted frame must equal the symbolic sum to 2^-16 ns',
                  COMMON_ASSUME + ['emitted frames are parsed by the harness\'s independent decoder and by statime\'s own parser'])


def run_driver(binname, args, name, profile='dev', timeout=900):
    """run a harness driver binary that prints one JSON report on stdout"""
    d = outdir('replay', name)
    vlib.clean_dir(d)
    try:
        r = subprocess.run([binpath(binname, profile)] + args + ['--replay-dir', d], cwd=ROOT, stdout=subprocess.PIPE, stderr=subprocess.PIPE, text=True, timeout=timeout)
    except subprocess.TimeoutExpired:
        raise ToolError('driver %s timed out' % binname)
    if r.returncode != 0:
        raise ToolError('driver %s failed: %s' % (binname, (r.stderr or r.stdout)[-2000:]))
    return json.loads(r.stdout)


def check_C14(tier, seed):
    t0 = time.time()
    build('dev')
    v = Verdict('C14')
    acc = Acc()
    q = tier == 'quick'
    inv = ['OneResponder']
    props_ = ['SecondResponderFaults', 'FaultyIsInert', 'LeavesOnlyByCleanExchange']
    owns = ['flt', 'snap.pd', 'snap.md', 'pst', 'md', 'clk']
    wp = world(asym([p2p()]))
    fam = ['tdreq', 'ts', 'pd']
    run_inst_suite('C14', v, acc, 'C14-listening', 'MCPort', port_consts(fam, PCfg=('<-', 'PCfg_P')), wp, 8 if q else 11, seed, owns, ['C14'],
                   invariants=inv, properties=props_)
    run_inst_suite('C14', v, acc, 'C14-master', 'MCPort', port_consts(fam + ['tann', 'tsync', 'trcpt'], PCfg=('<-', 'PCfg_P'), Prefix=('<-', 'PrefixPdMaster'), MaxRep=1), wp,
                   7 if q else 9, seed + 1, owns, ['C14'], invariants=inv, properties=props_)
    run_inst_suite('C14', v, acc, 'C14-slave', 'MCPort', port_consts(fam + ['pdfupB', 'sync', 'annP', 'bmca'], PCfg=('<-', 'PCfg_P'), Prefix=('<-', 'PrefixSlave'), MaxRep=1, NSync=1, TwoStepSet='{}'), wp,
                   6 if q else 8, seed + 2, owns, ['C14'], invariants=inv, properties=props_)
    # responder side: every Pdelay_Req (with its correction field) is answered in every port state
    run_inst_suite('C14', v, acc, 'C14-responder', 'MCPort', port_consts(['pdreq', 'ts', 'trcpt', 'tdreq'], PCfg=('<-', 'PCfg_P')), wp, 5 if q else 7, seed + 3,
                   owns + ['out.PdelayResp', 'out.PdelayRespFup'], ['C14'], invariants=inv, properties=props_)
    if not q:
        run_inst_suite('C14', v, acc, 'C14-sim', 'MCPort', port_consts(fam + ['pdfupB', 'tann', 'tsync', 'trcpt', 'annP', 'bmca'], PCfg=('<-', 'PCfg_P'), NPd=4), wp,
                       60, seed, owns, ['C14'], invariants=inv, properties=props_, simulate=(200, 40))
    # Binding B: recorded random histories of the real instance validated against TraceInstance.tla
    run_inst_traces('C14', v, acc, ['flt', 'pst', 'clk'], tier, seed, variants=('D',))
    return finish('C14', tier, seed, 'model_checking', v, acc, t0, EDGE_RULE + '; peer delay values are symbolic forms evaluated per seed and compared bit-exactly',
                  COMMON_ASSUME + ['two responders (one two-step, one one-step), two consecutive requests, every message up to twice in any order'])


def check_C11(tier, seed):
    t0 = time.time()
    build('dev')
    v = Verdict('C11')
    acc = Acc()
    q = tier == 'quick'
    inv = ['GMOwn', 'GMParent']
    props_ = ['AnnounceContent']
    owns = ['out.Announce.gm', 'out.Announce.steps', 'out.Announce.tp', 'gm', 'steps', 'tp', 'ppi']
    w2 = world([e2e(), e2e()])
    fam = ['annP', 'annO', 'bmca', 'tann', 'trcpt', 'q']
    run_inst_suite('C11', v, acc, 'C11-boundary', 'MCPort', port_consts(fam, PCfg=('<-', 'PCfg_A'), Prefix=('<-', 'PrefixBoundary'), AnnVar='{1, 2, 3}'), w2,
                   5 if q else 7, seed, owns, ['C11'], invariants=inv, properties=props_)
    run_inst_suite('C11', v, acc, 'C11-from-start', 'MCPort', port_consts(fam, PCfg=('<-', 'PCfg_A'), AnnVar='{2, 4}'), w2,
                   6 if q else 8, seed + 1, owns, ['C11'], invariants=inv, properties=props_)
    # own priority1 and priority2 differ: what the instance advertises as grandmaster (from the start, and after taking over)
    run_inst_suite('C11', v, acc, 'C11-own-priorities', 'MCPort', port_consts(fam, PCfg=('<-', 'PCfg_A'), AnnVar='{2}', OwnP=('<-', 'MC_OwnP2')), world([e2e(), e2e()], own={'p2': 120}),
                   6 if q else 8, seed + 2, owns, ['C11'], invariants=inv, properties=props_)
    w3 = world([e2e(), e2e(), e2e()])
    if not q:
        run_inst_suite('C11', v, acc, 'C11-sim', 'MCPort', port_consts(fam + ['so'], PCfg=('<-', 'PCfg_A'), AnnVar='{1, 2, 3, 4}'), w2,
                       50, seed, owns, ['C11'], invariants=inv, properties=props_, simulate=(300, 40))
    # Binding B: recorded random histories of the real instance validated against TraceInstance.tla
    run_inst_traces('C11', v, acc, ['out.Announce', 'gm', 'steps', 'tp', 'ppi'], tier, seed, variants=('A', 'B', 'P'))
    return finish('C11', tier, seed, 'model_checking', v, acc, t0, EDGE_RULE,
                  COMMON_ASSUME + ['parent Announce contents range over four variants (grandmaster record, stepsRemoved 0/1/254, every leap/traceable flag, '
                                   'utc offset valid/invalid/negative, three time sources); the byte-level field mapping is checked through the independent decoder'])


def c07_noise_owns(fld, ev, prev, var):
    """Binding B for C07: a departure counts iff the call that departs delivered traffic the port has to ignore"""
    e = ev.get('e')
    if e not in ('ann', 'sync', 'fup', 'dresp', 'sig'):
        return False
    if any(k in ev for k in ('dom', 'sdo', 'ver')) or e == 'sig':
        return True
    p = ev.get('p', 1)
    if e == 'ann':
        if ev['src'] == [5, p]:
            return True
        return var == 'D' and p == 1 and ev['src'][0] not in (2, 9)          # outside the acceptable master list of that port
    if prev is None:
        return True
    if prev['pst'][p - 1] != 'S' or ev['src'] != prev['ppi']:
        return True
    return e == 'dresp' and ev.get('req') != [5, p]


def check_C07(tier, seed):
    t0 = time.time()
    build('dev')
    v = Verdict('C07')
    acc = Acc()
    q = tier == 'quick'
    props_ = ['NoiseInert']
    owns = ['*']   # for a noise event every departure is a C07 violation; for other events nothing is owned (see judge below)
    wl = world(asym([e2e(aml=[2, 9])]))
    famn = ['n_filter', 'n_ann', 'n_slave']
    suites = [
        ('C07-slave', port_consts(['sync', 'dresp', 'ts', 'tdreq'] + famn, PCfg=('<-', 'PCfg_L'), Prefix=('<-', 'PrefixSlave'), MaxRep=1), wl, 6 if q else 8),
        ('C07-roles', port_consts(['annP', 'annO', 'bmca', 'trcpt', 'tann', 'tsync'] + famn, PCfg=('<-', 'PCfg_L'), MaxRep=1, NSync=1, NDelay=1), wl, 5 if q else 7),
    ]
    for name, c, w, d in suites:
        run_inst_suite('C07', v, acc, name, 'MCPort', c, w, d, seed, [], [], properties=props_)
        # verdict: only edges whose last event is noise count
        rep = json.load(open(os.path.join(OUT, 'logs', name + '.report.json')))
        for key, items in rep.get('kept', {}).items():
            for it in items:
                if (it.get('last') or {}).get('noise'):
                    v.add({'kind': 'mismatch', 'key': key, 'detail': it['detail'], 'last': it.get('last'), 'replay': it['replay'], 'suite': name})
    # two-run form on the real code: H with noise vs H without, in lock-step
    tr = run_driver('tworun', ['--seed', str(seed), '--runs', '300' if q else '5000', '--len', '60'], 'C07-tworun', timeout=900)
    acc.suites.append({'suite': 'C07-tworun', 'driver': 'harness/src/bin/tworun.rs', 'result': {k: tr[k] for k in tr if k != 'violations'}})
    acc.events += tr.get('calls', 0)
    acc.edges += tr.get('runs', 0)
    for item in tr.get('violations', []):
        v.add({'kind': 'predicate', 'key': 'C07/tworun', 'detail': item['detail'], 'replay': item['replay']})
    # Binding B: recorded random histories of the real instance validated against TraceInstance.tla
    run_inst_traces('C07', v, acc, c07_noise_owns, tier, seed, variants=('A', 'D'))
    return finish('C07', tier, seed, 'model_checking', v, acc, t0,
                  EDGE_RULE + '; plus randomised two-run histories (with / without the inserted frames) compared in lock-step',
                  COMMON_ASSUME + ['noise families: other domain, other sdoId, versionPTP 1, truncated frame, messageLength < 34, Signaling, Management, Announce from an '
                                   'identity outside the acceptable master list, Announce bearing the port\'s own identity, Sync/Follow_Up/Delay_Resp from a non-parent, '
                                   'Delay_Resp for another requester, Sync on the general channel'])



def check_C12(tier, seed):
    t0 = time.time()
    build('dev')
    v = Verdict('C12')
    acc = Acc()
    q = tier == 'quick'
    owns = ['out.T', 'pend', 'out.len']
    base = dict(INST_CONST)
    base.update({'WithPd': False, 'Emitting': True, 'FreeBudget': 0})
    def c(pcfg, **kw):
        d = dict(base)
        d['PCfg'] = ('<-', pcfg)
        d.update(kw)
        return d
    inv = ['NoOrphanWaitButKnown']
    # safety + conformance: the instance composed with a host that obeys timer actions
    run_inst_suite('C12', v, acc, 'C12-host-e2e', 'MCHost', c('PCfg_E'), world([e2e()]), 8 if q else 10, seed, owns, ['C12'], invariants=inv)
    run_inst_suite('C12', v, acc, 'C12-host-two-ports', 'MCHost', c('PCfg_B'), world([e2e(), e2e(mo=True)]), 6 if q else 8, seed, owns, ['C12'], invariants=inv)
    run_inst_suite('C12', v, acc, 'C12-host-p2p', 'MCHost', c('PCfg_P', WithPd=True), world([p2p()]), 8 if q else 10, seed, owns, ['C12'], invariants=inv)
    run_inst_suite('C12', v, acc, 'C12-host-p2p-sim', 'MCHost', c('PCfg_P', WithPd=True), world([p2p()]), 70, seed, owns, ['C12'], invariants=inv,
                   simulate=(20 if q else 400, 60))
    # the strict invariant fails only through the recorded finding (P2P port: master by timeout -> faulty -> recovery)
    plain_tlc('C12', v, acc, 'C12-strict-p2p', 'MCHost', c('PCfg_P', WithPd=True, Depth=9 if q else 11), invariants=['NoOrphanWait'], expect_violation='NoOrphanWait')
    # liveness on the continuation model (finite: sequence ids and ghost bookkeeping dropped), no state constraint
    live = dict(base)
    live.update({'SeqMod': 1, 'Ghost': False, 'Emitting': False, 'Depth': 0, 'FreeBudget': 6 if q else 0})
    for name, pcfg, budget in ([('C12-live-e2e', 'PCfg_E', 6)] if q else [('C12-live-e2e', 'PCfg_E', 0), ('C12-live-two-ports', 'PCfg_B', 5), ('C12-live-p2p-port', 'PCfg_P', 8)]):
        cc = dict(live)
        cc['PCfg'] = ('<-', pcfg)
        cc['FreeBudget'] = budget
        cfg = os.path.join(outdir('cfg'), name + '.cfg')
        if pcfg == 'PCfg_P':
            cc['WithPd'] = True      # peer delay exchanges with one or two responders are part of the P2P port's environment
        write_cfg(cfg, spec='LiveSpec', constants=cc, invariants=['NoOrphanWaitButKnown' if pcfg == 'PCfg_P' else 'NoOrphanWait'],
                  properties=['LiveSilence', 'LiveSilenceSlaveOnly', 'LiveSteady'], action_constraint='Norm')
        stats, text = run_tlc('MCHost.tla', cfg, name, workers=8, timeout=6000)
        if stats['errors'] and not stats['violated']:
            raise ToolError('TLC error in %s: %s' % (name, stats['errors'][:2]))
        acc.add(name, stats)
        if stats['violated']:
            stats['text_trace'] = vlib.extract_trace(text)
            p = write_tlc_counterexample('C12', name, stats)
            v.add({'kind': 'tlc', 'key': 'tlc:live:' + ','.join(stats['violated']), 'detail': 'TLC: liveness/safety violated in %s' % name, 'replay': p, 'suite': name})
    # bounded form of the liveness claims on the real code, virtual time
    hs = run_driver('hostsim', ['--seed', str(seed), '--runs', '1500' if q else '40000'], 'C12-hostsim', timeout=1800)
    acc.suites.append({'suite': 'C12-hostsim', 'driver': 'harness/src/bin/hostsim.rs', 'result': {k: hs[k] for k in hs if k != 'violations'}})
    acc.edges += hs.get('runs', 0)
    for item in hs.get('violations', []):
        v.add({'kind': 'predicate', 'key': 'C12/hostsim' + ('-orphan-recovered' if item.get('known') else ''), 'detail': item['detail'], 'replay': item['replay']})
    # Binding B: recorded random histories of the real instance validated against TraceInstance.tla
    run_inst_traces('C12', v, acc, ['out.T', 'pend', 'out.len', 'snap.rm'], tier, seed, variants=('A', 'D', 'S', 'K'))
    return finish('C12', tier, seed, 'model_checking', v, acc, t0,
                  EDGE_RULE + '; plus virtual-time continuations of random real histories with (a) silence and (b) a steady better master',
                  COMMON_ASSUME + ['the host arms exactly the timers the returned actions request and a timer fires only while armed (statime-linux main.rs)',
                                   'weak fairness of every armed timer and of BMCA runs; in the steady scenario one Announce and one BMCA per round and no receipt timeout',
                                   'liveness model: sequence ids modulo 1 and no ghost bookkeeping (finite without a depth bound)'])



def check_C15(tier, seed):
    t0 = time.time()
    build('dev')
    build('release')
    v = Verdict('C15')
    acc = Acc()
    q = tier == 'quick'
    inv = ['Fits', 'OnlyParentPropagating', 'OrderOnce', 'PathOK', 'NoLoopAccepted', 'NoBlockedQueue']
    props_ = ['AlwaysSent', 'NextWithRoom']
    owns = ['out.F', 'out.Announce.tlvs', 'out.Announce.len', 'out.Announce.selfdec', 'out.len', 'path']
    base = dict(INST_CONST)
    base.update({'Fwd': True, 'WithOther': True})
    def c(pcfg, lists, paths, **kw):
        d = dict(base)
        d.update({'PCfg': ('<-', pcfg), 'ListSet': tla_set(lists), 'PathSet': tla_set(paths)})
        d.update(kw)
        return d
    w2 = world([e2e(), e2e()], fwd=True)
    w2p = world([e2e(), e2e()], fwd=True, ptrace=True)
    w3 = world([e2e(), e2e(), e2e(mo=True)], fwd=True)
    small = [1, 2, 3, 4, 5, 6, 7, 8, 9]
    invb = [i for i in inv if i != 'NoBlockedQueue']     # suites that contain a TLV which can never be sent (the recorded finding) leave it out
    run_inst_suite('C15', v, acc, 'C15-sizes', 'MCFwd', c('PCfg_2', small, [0]), w2, 4 if q else 5, seed, owns, ['C15', 'C03'], invariants=invb, properties=props_)
    run_inst_suite('C15', v, acc, 'C15-sizes-release', 'MCFwd', c('PCfg_2', [2, 3, 5, 8], [0]), w2, 4 if q else 5, seed, owns, ['C15', 'C03'], invariants=invb, properties=props_, profile='release')
    run_inst_suite('C15', v, acc, 'C15-fitting', 'MCFwd', c('PCfg_2', [1, 2, 3, 4, 6, 7, 8, 9], [0]), w2, 4 if q else 5, seed, owns, ['C15', 'C03'], invariants=inv, properties=props_)
    run_inst_suite('C15', v, acc, 'C15-several', 'MCFwd', c('PCfg_2', [1, 6, 11], [0]), w2, 5 if q else 7, seed, owns, ['C15', 'C03'], invariants=inv, properties=props_)
    run_inst_suite('C15', v, acc, 'C15-path-trace', 'MCFwd', c('PCfg_2', [0, 1, 3, 5], [1, 2, 3, 4, 5, 6], PTrace=True), w2p, 4 if q else 5, seed, owns, ['C15', 'C03'],
                   invariants=invb, properties=props_)
    run_inst_suite('C15', v, acc, 'C15-path-as-tlv', 'MCFwd', c('PCfg_2', [0, 1], [0, 1, 3, 5]), w2, 4 if q else 5, seed, owns, ['C15', 'C03'], invariants=invb, properties=props_)
    run_inst_suite('C15', v, acc, 'C15-two-masters', 'MCFwd', c('PCfg_3', [1, 3, 8, 11], [0]), w3, 4 if q else 6, seed, owns, ['C15', 'C03'], invariants=inv, properties=props_)
    # a TLV larger than any Announce: the recorded finding (queue blocked for ever); everything else must still hold
    run_inst_suite('C15', v, acc, 'C15-oversize', 'MCFwd', c('PCfg_2', [1, 10], [0]), w2, 4 if q else 6, seed, owns, ['C15', 'C03'], invariants=invb, properties=props_)
    plain_tlc('C15', v, acc, 'C15-oversize-strict', 'MCFwd', c('PCfg_2', [1, 10], [0], Depth=4), invariants=['NoBlockedQueue'], expect_violation='NoBlockedQueue')
    # forwarder lag / overflow of the 128-slot channel through the real TlvForwarder
    ov = run_driver('fwdlag', ['--seed', str(seed)], 'C15-fwdlag', timeout=600)
    acc.suites.append({'suite': 'C15-fwdlag', 'driver': 'harness/src/bin/fwdlag.rs', 'result': {k: ov[k] for k in ov if k != 'violations'}})
    acc.events += ov.get('calls', 0)
    for item in ov.get('violations', []):
        v.add({'kind': 'predicate', 'key': 'C15/fwdlag', 'detail': item['detail'], 'replay': item['replay']})
    # Binding B: recorded random histories of the real instance validated against TraceInstance.tla
    run_inst_traces('C15', v, acc, ['out.F', 'out.Announce.tlvs', 'path'], tier, seed, variants=('B', 'F'))
    return finish('C15', tier, seed, 'model_checking', v, acc, t0,
                  EDGE_RULE + '; TLVs are abstract [type, value length, tag] records with integer room accounting; the replay uses the real TlvForwarder',
                  COMMON_ASSUME + ['the host forwards ForwardTLV actions to every port\'s receiver and never empties a receiver (UDP port task of the daemon); '
                                   'the ethernet port task empties a master port\'s receiver at every BMCA, which drops TLVs received since the last Announce - observed in the model, '
                                   'not exercised on the daemon'])



def check_C03(tier, seed):
    t0 = time.time()
    build('dev')
    build('release')
    v = Verdict('C03')
    acc = Acc()
    q = tier == 'quick'
    owns = ['panic']
    w1 = world(asym([e2e()]))
    w1p = world(asym([e2e()]), ptrace=True)
    wp = world(asym([p2p()]))
    w2 = world([e2e(), e2e()], fwd=True, ptrace=True)
    # model-derived: (reachable state) x (boundary-class input) edges, both profiles. Only unwinds count here; value
    # departures on out-of-range inputs belong to the owners of those fields.
    suites = [
        ('C03-slave-extremes', port_consts(['x_sync', 'x_ann', 'tdreq', 'ts', 'annP', 'bmca'], Prefix=('<-', 'PrefixSlave'), PTrace=True), w1p, 3 if q else 4),
        ('C03-master-extremes', port_consts(['x_master', 'x_ts', 'tsync', 'tann', 'ts'], Prefix=('<-', 'PrefixMaster')), w1, 3 if q else 4),
        ('C03-pd-extremes', port_consts(['x_pd', 'tdreq', 'ts', 'x_ts', 'trcpt'], PCfg=('<-', 'PCfg_P')), wp, 4 if q else 5),
        ('C03-listening-extremes', port_consts(['x_ann', 'x_sync', 'bmca', 'trcpt', 'so', 'q'], PTrace=True), w1p, 3 if q else 4),
    ]
    for name, c, w, d in suites:
        for prof in ('dev', 'release'):
            run_inst_suite('C03', v, acc, '%s-%s' % (name, prof), 'MCPort', c, w, d, seed, owns, ['C03'], profile=prof)
    # boundary clock: forwarded TLVs whose sizes lie around the room of the Announce, with and without the own PATH_TRACE TLV (module MCFwd)
    fbase = dict(INST_CONST)
    fbase.update({'Fwd': True, 'WithOther': True})
    def fc(lists, paths, **kw):
        d = dict(fbase)
        d.update({'PCfg': ('<-', 'PCfg_2'), 'ListSet': tla_set(lists), 'PathSet': tla_set(paths)})
        d.update(kw)
        return d
    # one master announcing nine times and more between two BMCA runs (a record holds eight messages)
    fmc = dict(INST_CONST)
    fmc.update({'PCfg': ('<-', 'PCfg_E'), 'StepsOf255': 255, 'Start2': 65534, 'Sibling': False, 'Masters': tla_set([2])})
    run_inst_suite('C03', v, acc, 'C03-many-announces', 'MCFm', fmc, world([e2e()]), 10 if q else 12, seed, owns, ['C03'])
    run_inst_suite('C03', v, acc, 'C03-fwd-sizes', 'MCFwd', fc([1, 2, 3, 4, 5, 6, 7, 8, 9], [0]), world([e2e(), e2e()], fwd=True), 4 if q else 5, seed, owns, ['C03'])
    run_inst_suite('C03', v, acc, 'C03-fwd-sizes-path', 'MCFwd', fc([0, 1, 2, 3, 4, 5, 8], [1, 2, 3], PTrace=True), w2, 4 if q else 5, seed, owns, ['C03'])
    # randomised call orders with boundary values, mutated and random frames up to 2048 octets, six port configurations
    for prof in ('dev', 'release'):
        rb = run_driver('robust', ['--seed', str(seed), '--runs', '3000' if q else '60000', '--len', '200'], 'C03-robust-' + prof, profile=prof, timeout=3000)
        acc.suites.append({'suite': 'C03-robust-' + prof, 'driver': 'harness/src/bin/robust.rs', 'result': {k: rb[k] for k in rb if k != 'violations'}})
        acc.events += rb.get('calls', 0)
        acc.edges += rb.get('runs', 0)
        acc.distinct += len(rb.get('events_by_kind', {}))
        for item in rb.get('violations', []):
            if 'nested acquisition' in item['detail']:
                continue        # C17's alarm
            v.add({'kind': 'predicate', 'key': 'C03/robust', 'detail': item['detail'], 'replay': item['replay']})
    # Binding B: recorded random histories of the real instance validated against TraceInstance.tla
    run_inst_traces('C03', v, acc, ['panic'], tier, seed, variants=('A', 'B', 'D', 'M', 'F', 'S'))
    return finish('C03', tier, seed, 'exploration', v, acc, t0,
                  'model-derived: TLC enumerates (reachable abstract state, boundary-class input) edges - correction fields {min, max, +-1 ns, +-1 unit, 0}, timestamps '
                  '{0, 1 ns, sub-ns only, second carry, 2^48 s - 1, 2^63 ns - 1}, stepsRemoved {254, 255, 65535}, path trace lengths {1, 127, 128, 129, 200}, TLV sizes around '
                  'the Announce room - each replayed in the debug-assertion/overflow-check profile and the release profile; plus randomised call sequences with the same classes, '
                  'mutated and random frames up to 2048 octets on six port configurations; a case is non-trivial if it changes state or returns actions',
                  COMMON_ASSUME + ['values inside a boundary class are sampled per seed', 'the nesting-detecting mutex stands in for RefCell/RwLock: an unwind inside a lock span is reported as poisoning'])



# ------------------------------------------------------------------------------------------------ C17

def pattern_ops(pat, who):
    """'RRW[cpt]' -> list of TLA+ op tuples; a data set written in k spans of one operation gets field min(k,2) per span"""
    import re
    spans = re.findall(r'R|W\[[a-z]*\]', pat)
    count = {}
    for sp in spans:
        if sp.startswith('W'):
            for d in sp[2:-1]:
                count[d] = count.get(d, 0) + 1
    seen = {}
    ops = []
    for sp in spans:
        if sp == 'R':
            ops += ['<<"R+">>', '<<"R-">>']
        else:
            ops.append('<<"W+">>')
            for d in sp[2:-1]:
                if d not in 'cpt':
                    continue
                seen[d] = seen.get(d, 0) + 1
                if count[d] == 1:
                    ops += ['<<"w", "%s", 1, "%s">>' % (d, who), '<<"w", "%s", 2, "%s">>' % (d, who)]
                else:
                    ops.append('<<"w", "%s", %d, "%s">>' % (d, min(seen[d], 2), who))
            ops.append('<<"W-">>')
    return ops


def lock_model(name, progs, expect=None, timeout=900):
    """progs: dict thread -> list of op strings. Returns (violated list, stats)"""
    d = outdir('cfg')
    mod = 'MCLock_' + name.replace('-', '_')
    body = ['---- MODULE %s ----' % mod, 'EXTENDS Lock', 'MCProg == ' + ' @@ '.join('("%s" :> <<%s>>)' % (t, ', '.join(ops)) for t, ops in progs.items()),
            'MCData == {"c", "p", "t"}', '====']
    open(os.path.join(d, mod + '.tla'), 'w').write('\n'.join(body) + '\n')
    shutil.copy(os.path.join(SPECS, 'Lock.tla'), os.path.join(d, 'Lock.tla'))
    cfg = os.path.join(d, mod + '.cfg')
    open(cfg, 'w').write('SPECIFICATION Spec\nCONSTANTS\n  Prog <- MCProg\n  DataSets <- MCData\nINVARIANT AtomicSnapshot\nINVARIANT LockOK\nCHECK_DEADLOCK TRUE\n')
    stats, text = run_tlc(mod + '.tla', cfg, 'C17-' + name, workers=8, timeout=timeout, cwd=d)
    for f in (mod + '.tla', 'Lock.tla'):
        try:
            os.remove(os.path.join(d, f))
        except OSError:
            pass
    shutil.rmtree(os.path.join(d, 'states'), ignore_errors=True)
    stats['text_trace'] = vlib.extract_trace(text)
    return stats


def check_C17(tier, seed):
    t0 = time.time()
    build('dev')
    v = Verdict('C17')
    acc = Acc()
    q = tier == 'quick'
    # (i) every history explored runs over the nesting-detecting mutex: a few broad edge suites judged for C17 only
    consts, w = INST_VARIANTS['A']
    c = dict(INST_CONST); c.update(consts); c['WithQ'] = True
    run_inst_suite('C17', v, acc, 'C17-inst', 'MCInst', c, w, 5 if q else 7, seed, [], ['C17'])
    run_inst_suite('C17', v, acc, 'C17-slave', 'MCPort', port_consts(['sync', 'dresp', 'ts', 'tdreq', 'annP', 'bmca'], Prefix=('<-', 'PrefixSlave')), world(asym([e2e()])),
                   6 if q else 8, seed, [], ['C17'])
    # frames the port must ignore (other domain / sdoId / version, filtered or unrelated senders): the paths that reject them take the lock too
    run_inst_suite('C17', v, acc, 'C17-noise', 'MCPort', port_consts(['sync', 'dresp', 'ts', 'tdreq', 'n_filter', 'n_ann', 'n_slave'], PCfg=('<-', 'PCfg_L'), Prefix=('<-', 'PrefixSlave'), MaxRep=1),
                   world(asym([e2e(aml=[2, 9])])), 5 if q else 7, seed, [], ['C17'])
    fw = dict(INST_CONST); fw.update({'Fwd': True, 'WithOther': True, 'PCfg': ('<-', 'PCfg_2'), 'ListSet': '{1, 6, 8}', 'PathSet': '{1, 2}', 'PTrace': True})
    run_inst_suite('C17', v, acc, 'C17-fwd', 'MCFwd', fw, world([e2e(), e2e()], fwd=True, ptrace=True), 4 if q else 5, seed, [], ['C17'])
    # randomised calls with the acquisition pattern of every call recorded (which data sets each write span changed)
    rb = run_driver('robust', ['--seed', str(seed), '--runs', '1500' if q else '20000', '--len', '200', '--lockpat'], 'C17-patterns', timeout=3000)
    pats = {}
    for opname, d in rb.get('lock_patterns', {}).items():
        for pat, n in d.items():
            pats.setdefault(pat, []).append(opname)
    for item in rb.get('violations', []):
        if 'nested acquisition' in item['detail']:
            v.add({'kind': 'predicate', 'key': 'C17/nested', 'detail': item['detail'], 'replay': item['replay']})
    acc.events += rb.get('calls', 0)
    split = [p for p in pats if any(p.count(d) > 1 and sum(1 for sp in __import__('re').findall(r'W\[[a-z]*\]', p) if d in sp) > 1 for d in 'cpt')]
    acc.suites.append({'suite': 'C17-patterns', 'driver': 'harness/src/bin/robust.rs --lockpat', 'calls': rb.get('calls'), 'distinct_patterns': sorted(pats.keys()),
                       'operations_per_pattern': {p: sorted(o)[:8] for p, o in pats.items()}})
    # (ii) the lock model, instantiated with the observed patterns
    writers = sorted([p for p in pats if 'W[' in p and any(d in p for d in 'cpt')], key=lambda p: (-len(p), p))
    readers_ = sorted([p for p in pats if p and 'W' not in p], key=lambda p: (-len(p), p))
    port_w = [p for p in writers if p.startswith('R')] or ['RRW[cpt]']
    inst_w = [p for p in writers if not p.startswith('R')] or ['W[cpt]']
    progs = {
        'port1': pattern_ops(port_w[0], 'a1') + pattern_ops(port_w[-1], 'a2'),
        'port2': pattern_ops(readers_[0] if readers_ else 'RRR', 'b1')[:8] + pattern_ops(port_w[0], 'b2'),
        'bmca': pattern_ops(inst_w[0], 'm1') + pattern_ops(inst_w[-1], 'm2'),
        'obs': sum([['<<"R+">>', '<<"r", "%s", 1>>' % d, '<<"r", "%s", 2>>' % d, '<<"R-">>'] for d in 'pct'], []),
    }
    stats = lock_model('observed', progs)
    acc.add('C17-lock-model', stats)
    if stats['violated'] or stats['errors']:
        pth = write_tlc_counterexample('C17', 'C17-lock-model', stats)
        v.add({'kind': 'tlc', 'key': 'tlc:lock:' + ','.join(stats['violated'] or ['error']), 'detail': 'lock model with the observed acquisition patterns: %s' % (stats['violated'] or stats['errors'][:1]), 'replay': pth})
    # negative controls: the model does find a nested read (deadlock) and a split update (torn snapshot)
    ctl1 = lock_model('control-nested', {'port1': ['<<"R+">>', '<<"R+">>', '<<"R-">>', '<<"R-">>'], 'bmca': pattern_ops('W[cpt]', 'm1')})
    ctl2 = lock_model('control-split', {'port1': ['<<"W+">>', '<<"w", "p", 1, "a1">>', '<<"W-">>', '<<"W+">>', '<<"w", "p", 2, "a1">>', '<<"W-">>'],
                                         'obs': ['<<"R+">>', '<<"r", "p", 1>>', '<<"r", "p", 2>>', '<<"R-">>']})
    controls_ok = bool(ctl1['violated']) and ('AtomicSnapshot' in ctl2['violated'])
    if not controls_ok:
        raise ToolError('lock model negative controls did not fail as expected: %s %s' % (ctl1['violated'], ctl2['violated']))
    # (iii) real threads over the real RwLock
    ls = run_driver('lockstress', ['--iters', '200000' if q else '3000000'], 'C17-lockstress', timeout=900)
    acc.suites.append({'suite': 'C17-lockstress', 'driver': 'harness/src/bin/lockstress.rs', 'result': {k: ls[k] for k in ls if k != 'violations'}})
    for item in ls.get('violations', []):
        v.add({'kind': 'predicate', 'key': 'C17/stress', 'detail': item['detail'], 'replay': item['replay']})
    return finish('C17', tier, seed, 'model_checking', v, acc, t0,
                  EDGE_RULE + '; the lock model is instantiated with the acquisition patterns observed on the real calls (which data sets each write span changed)',
                  COMMON_ASSUME + ['std::sync::RwLock behaves as a writer-preferring reader-writer lock (a reader is not admitted while a writer waits)',
                                   'the recording mutex sees every acquisition (the library reaches the state only through PtpInstanceStateMutex)'],
                  extra_cov={'negative_controls': {'nested_read_deadlocks': bool(ctl1['violated']), 'split_update_tears_snapshot': 'AtomicSnapshot' in ctl2['violated']},
                             'patterns_with_a_data_set_written_in_two_spans': split})



# ------------------------------------------------------------------------------------------------ C18

def check_C18(tier, seed):
    t0 = time.time()
    build('dev')
    v = Verdict('C18')
    acc = Acc()
    q = tier == 'quick'
    consts = {'PpmSet': ('<-', 'MC_Ppm'), 'StepSet': ('<-', 'MC_Step'), 'AdvSet': '{0, 1, 100, 700}', 'MaxU': 1900, 'Depth': 6 if q else 7}
    cfg = os.path.join(outdir('cfg'), 'C18-overlay.cfg')
    write_cfg(cfg, constants=consts, invariants=['InRange'], properties=['Continuous', 'ExactStep', 'Rate', 'ReturnsNow'], view='View', constraint='Bound', action_constraint='Emit')
    rd = outdir('replay', 'C18-overlay'); vlib.clean_dir(rd)
    stats, rep = vlib.pipe_tlc('Overlay.tla', cfg, 'C18-overlay', [binpath('overlay'), '--edges', '--seed', str(seed), '--replay-dir', rd], timeout=1500)
    acc.add('C18-overlay', stats)
    acc.edges += rep['sequences']
    acc.samples += rep.get('samples', [])[:3]
    if stats['violated']:
        pth = write_tlc_counterexample('C18', 'C18-overlay', stats)
        v.add({'kind': 'tlc', 'key': 'tlc:' + ','.join(stats['violated']), 'detail': 'TLC: %s violated' % stats['violated'], 'replay': pth})
    for item in rep.get('violations', []):
        v.add({'kind': 'mismatch', 'key': 'C18/edge', 'detail': item['detail'], 'replay': item['replay']})
    # simulation to length 50 on the model, same replay
    cfg2 = os.path.join(outdir('cfg'), 'C18-overlay-sim.cfg')
    c2 = dict(consts); c2['Depth'] = 51; c2['AdvSet'] = '{0, 1, 10, 60}'
    write_cfg(cfg2, constants=c2, invariants=['InRange'], view='View', constraint='Bound', action_constraint='Emit')
    rd2 = outdir('replay', 'C18-overlay-sim'); vlib.clean_dir(rd2)
    stats2, rep2 = vlib.pipe_tlc('Overlay.tla', cfg2, 'C18-overlay-sim', [binpath('overlay'), '--edges', '--seed', str(seed + 1), '--replay-dir', rd2], timeout=1500,
                                 extra=['-simulate', 'num=%d' % (4 if q else 60), '-depth', '50', '-seed', str(seed)])
    acc.suites.append({'suite': 'C18-overlay-sim', 'edges_replayed': rep2['sequences']})
    acc.edges += rep2['sequences']
    for item in rep2.get('violations', []):
        v.add({'kind': 'mismatch', 'key': 'C18/sim', 'detail': item['detail'], 'replay': item['replay']})
    # randomised sequences over the full ranges of the property against the exact integer model
    rr = run_driver('overlay', ['--seed', str(seed), '--runs', '30000' if q else '1000000'], 'C18-random', timeout=3000)
    acc.suites.append({'suite': 'C18-random', 'sequences': rr['sequences']})
    acc.edges += rr['sequences']
    acc.distinct += rr['sequences']
    acc.samples += rr.get('samples', [])[:2]
    for item in rr.get('violations', []):
        v.add({'kind': 'mismatch', 'key': 'C18/random', 'detail': item['detail'], 'replay': item['replay']})
    acc.distinct += rep['sequences']
    return finish('C18', tier, seed, 'model_checking', v, acc, t0,
                  'every edge of the bounded graph of Overlay.tla (sequences of set_frequency / step_clock / advance up to the depth bound) is replayed on a real OverlayClock over a mock '
                  'underlying clock at three start points of the PTP range; after every operation reading, returned time and time_from_underlying are compared with the exact integer '
                  'value (tolerance 2 ns + 2^-40 of the elapsed time); plus simulated behaviours of length 50 and random sequences with fractional ppm; every sequence is distinct',
                  ['TLC and SANY', 'the exact integer model in the harness equals the TLA+ model (cross-checked on every edge)',
                   'the underlying clock is a mock whose time the harness sets'])



# ------------------------------------------------------------------------------------------------ C16

def check_C16(tier, seed):
    t0 = time.time()
    build('dev')
    build('release')
    v = Verdict('C16')
    acc = Acc()
    q = tier == 'quick'
    top = 16777215
    consts = {'HiSet': '{0, 1, %d}' % top if not q else '{0, %d}' % top, 'LoSet': '{0, 1, %d}' % top, 'NsSet': '{0, 1, 999999999}' if q else '{0, 1, 999999998, 999999999}',
              'FSet': '{0, 1, 65535}' if q else '{0, 1, 65534, 65535}', 'DHiSet': '{0, 549}' if q else '{0, 1, 549}'}
    total = {}
    for prof in ('dev', 'release'):
        name = 'C16-lattice-' + prof
        cfg = os.path.join(outdir('cfg'), name + '.cfg')
        write_cfg(cfg, constants=consts, invariants=['Laws'], action_constraint='Emit')
        rd = outdir('replay', name); vlib.clean_dir(rd)
        stats, rep = vlib.pipe_tlc('TimeArith.tla', cfg, name, [binpath('timevec', prof), '--seed', str(seed), '--replay-dir', rd, '--random', '200000' if q else '5000000'], timeout=3000)
        acc.add(name, stats)
        acc.edges += rep['vectors']
        acc.distinct += rep['vectors']
        acc.suites[-1].update({k: rep[k] for k in rep if k not in ('violations', 'samples')})
        if prof == 'dev':
            acc.samples += rep.get('samples', [])[:3]
        if stats['violated']:
            pth = write_tlc_counterexample('C16', name, stats)
            v.add({'kind': 'tlc', 'key': 'tlc:' + ','.join(stats['violated']), 'detail': 'TLC: a law of the limb reference is false on the lattice', 'replay': pth})
        for item in rep.get('violations', []):
            v.add({'kind': 'mismatch', 'key': 'C16/' + prof, 'detail': item['detail'], 'replay': item['replay']})
    # the reference itself: its limb arithmetic (module TimeLimbs, the text TLC evaluates above) equals integer arithmetic for ALL
    # well-formed magnitudes - Apalache, symbolic
    apa_ok = run_apalache('C16', v, 'ApaTime.tla', 3, 'the limb arithmetic of the reference differs from integer arithmetic for some magnitudes')
    acc.suites.append({'suite': 'C16-reference-exact', 'tool': 'apalache-mc --length=0 on specs/ApaTime.tla', 'laws': ['AddExact', 'LessExact', 'SubExact'], 'hold': apa_ok})
    return finish('C16', tier, seed, 'exploration', v, acc, t0,
                  'TLC evaluates the limb reference (TimeArith.tla) on every vector of the lattice {0, 1, max-1, max}^5 x signed durations (second / nanosecond / fraction '
                  'carries, sign changes, extremes of the PTP range) and checks its algebraic laws; each vector is applied to the real Time/Duration operators in the '
                  'overflow-checking and the release profile, with operands rebuilt by independent 128-bit integer arithmetic; wire conversions are observed through a real '
                  'port; the rest of the range is sampled per seed; all i8 log intervals from 2^-64 to 2^63 s are enumerated; every vector is distinct',
                  ['TLC and SANY; Apalache and Z3 for the exactness of the limb reference', 'three-way agreement is required: limb reference = harness integer arithmetic = statime',
                   'Time + Duration outside [0, 2^96 ns) has no exact value: the check demands that it does not wrap (statime clamps after fix 3a7f5bf)',
                   'Duration -> TimeInterval is checked for |d| < 2^46 ns (beyond that the 64-bit interval cannot hold it)',
                   'log intervals above 2^63 s exceed core::time::Duration / the 96-bit range and are not checked'],
                  exhaustive=False)



# ------------------------------------------------------------------------------------------------ C04

def check_C04(tier, seed):
    t0 = time.time()
    build('dev')
    v = Verdict('C04')
    acc = Acc()
    q = tier == 'quick'
    consts = {'Sweep8': ('<-', 'AllOctets'), 'Sweep16': '{0, 1, 255, 256, 32767, 32768, 65534, 65535}' if q else '{0, 1, 2, 255, 256, 257, 4095, 4096, 32767, 32768, 65279, 65280, 65534, 65535}'}
    name = 'C04-vectors'
    cfg = os.path.join(outdir('cfg'), name + '.cfg')
    write_cfg(cfg, constants=consts, invariants=['Laws'], action_constraint='Emit')
    rd = outdir('replay', name); vlib.clean_dir(rd)
    stats, rep = vlib.pipe_tlc('Codec.tla', cfg, name, [binpath('codecvec'), '--replay-dir', rd], timeout=3000)
    acc.add(name, stats)
    acc.edges += rep['vectors']
    acc.distinct += rep['vectors']
    acc.suites[-1].update({k: rep[k] for k in rep if k not in ('violations', 'samples')})
    acc.samples += rep.get('samples', [])[:3]
    if stats['violated']:
        pth = write_tlc_counterexample('C04', name, stats)
        v.add({'kind': 'tlc', 'key': 'tlc:' + ','.join(stats['violated']), 'detail': 'TLC: a law of the reference codec is false', 'replay': pth})
    for item in rep.get('violations', []):
        v.add({'kind': 'mismatch', 'key': item['key'], 'detail': item['detail'], 'replay': item['replay'], 'count': rep['by_kind'].get(item['key'], 1)})
    # byte-level fuzz: random and mutated buffers against the harness's independent decoder (accept/reject, length, idempotence)
    fz = run_driver('codecfuzz', ['--seed', str(seed), '--runs', '300000' if q else '20000000'], 'C04-fuzz', timeout=3000)
    acc.suites.append({'suite': 'C04-fuzz', 'driver': 'harness/src/bin/codecfuzz.rs', 'result': {k: fz[k] for k in fz if k != 'violations'}})
    acc.edges += fz['buffers']
    for item in fz.get('violations', []):
        v.add({'kind': 'mismatch', 'key': item['key'], 'detail': item['detail'], 'replay': item['replay']})
    return finish('C04', tier, seed, 'exploration', v, acc, t0,
                  'TLC evaluates the reference codec (Codec.tla, from Clause 13) over enumerated families: every message type x every value of each 8-bit header field, '
                  'boundary values of 16-bit and wider fields, every value of the one-octet body fields of Announce and Management, 17 TLV suffix layouts (none, several, '
                  'empty value, odd length, truncated, trailing octets, 900 and 1032 octet values), every messageLength / buffer relation, unknown types; each buffer goes '
                  'through statime\'s parser and serialiser; plus random and mutated buffers against the harness\'s independent decoder; every vector is distinct',
                  ['TLC and SANY', 'three-way agreement on accept/reject: Codec.tla = harness decoder (Rust, independent) = statime',
                   'messageTypeSpecific and controlField are treated as reserved / derived (statime clears the former and recomputes the latter)'],
                  exhaustive=False)



# ------------------------------------------------------------------------------------------------ C20 / C19

def obsdump(cases):
    """cases: list of {cfg, hist, est}; returns list of {json, live, ids, ...} from the real getters"""
    inp = '\n'.join(json.dumps(c) for c in cases) + '\n'
    r = subprocess.run([binpath('obsdump')], input=inp, stdout=subprocess.PIPE, stderr=subprocess.PIPE, text=True, cwd=ROOT, timeout=600)
    if r.returncode != 0:
        raise ToolError('obsdump failed: ' + r.stderr[-1000:])
    return [json.loads(l) for l in r.stdout.splitlines() if l.strip()]


SIMPLE_CASE = {"cfg": {"own": {"id": 5}, "ports": [{"p2p": False}]}, "hist": [{"e": "t", "k": "rcpt", "p": 1}], "est": {"off": "0", "delay": "0"}}


def tlc_sequences(name, maxlen, robust=True, simulate=None, seed=1):
    cfg = os.path.join(outdir('cfg'), name + '.cfg')
    write_cfg(cfg, constants={'Robust': robust, 'MaxLen': maxlen}, invariants=['NeverWedged', 'Answers'], properties=['BackToAccepting'],
              action_constraint='Emit', view='View')
    extra = []
    if simulate:
        extra = ['-simulate', 'num=%d' % simulate, '-depth', str(5 * maxlen + 2), '-seed', str(seed)]
    stats, text = run_tlc('Exporter.tla', cfg, name, workers=4, timeout=900, extra=extra)
    seqs = []
    seen = set()
    for ln in text.splitlines():
        if ln.startswith('<<"E", '):
            inner = json.loads(ln[len('<<"E", '):-2])
            e = json.loads(inner)
            key = json.dumps(e['seq'])
            if key not in seen:
                seen.add(key)
                seqs.append(e)
    return stats, seqs


def check_C20(tier, seed):
    import expdrv, random
    t0 = time.time()
    build('dev')
    v = Verdict('C20')
    acc = Acc()
    q = tier == 'quick'
    valid = obsdump([SIMPLE_CASE])[0]['json']
    # the model: required behaviour holds; the accept loop as originally found is wedged (negative control at design level)
    stats, seqs = tlc_sequences('C20-exhaustive', 2 if q else 3)
    acc.add('C20-exhaustive', stats)
    if stats['violated']:
        v.add({'kind': 'tlc', 'key': 'tlc:' + ','.join(stats['violated']), 'detail': 'Exporter.tla: required behaviour violated', 'replay': write_tlc_counterexample('C20', 'C20-exhaustive', stats)})
    stats_s, seqs_s = tlc_sequences('C20-sim', 4, simulate=120 if q else 2500, seed=seed)
    seqs_long = [s for s in seqs_s if len(s['seq']) >= 3]
    rnd = random.Random(seed)
    rnd.shuffle(seqs_long)
    seqs_long = seqs_long[:(60 if q else 2000)]
    cfgn = os.path.join(outdir('cfg'), 'C20-asfound.cfg')
    write_cfg(cfgn, constants={'Robust': False, 'MaxLen': 2}, invariants=['NeverWedged'], view='View')
    st_bad, _ = run_tlc('Exporter.tla', cfgn, 'C20-asfound', workers=2, timeout=300)
    if 'NeverWedged' not in st_bad['violated']:
        raise ToolError('negative control: the accept loop as originally found should violate NeverWedged in the model')
    # the real exporter
    rd = outdir('replay', 'C20'); vlib.clean_dir(rd)
    ran = 0
    fails = 0
    kinds = {}
    samples = []
    for e in seqs + seqs_long:
        ran += 1
        rig = expdrv.Rig(binpath('exporter'), os.path.join(OUT, 'exprig'), valid)
        problem = None
        try:
            if not rig.start_clean():
                raise ToolError('the exporter did not start answering')
            log = []
            for (client, sock), want in zip(e['seq'], e['expect']):
                got = rig.request(client, 'valid' if sock == '-' else sock)
                log.append([client, sock, want, got])
                if got != want and not (want == 'closed' and got == 'closed'):
                    problem = 'connection %s/%s: expected %s, observed %s' % (client, sock, want, got)
                    break
                for k in (client, sock):
                    kinds[k] = kinds.get(k, 0) + 1
            if problem is None:
                got = rig.request('get', 'valid', timeout=2.0)
                log.append(['probe', 'valid', '200', got])
                if got != '200':
                    problem = 'well-formed request after %s: %s (exporter alive: %s)' % (e['seq'], got, rig.alive())
                else:
                    t1 = rig.cpu_ticks(); time.sleep(0.15); t2 = rig.cpu_ticks()
                    if t1 is not None and t2 is not None and t2 - t1 > 8:
                        problem = 'exporter burns CPU while idle after %s (%d ticks in 150 ms)' % (e['seq'], t2 - t1)
                    if not rig.alive():
                        problem = 'exporter exited after %s' % (e['seq'],)
            if len(samples) < 3 and len(e['seq']) >= 2:
                samples.append({'sequence': e['seq'], 'observed': log})
        finally:
            rig.close()
        if problem:
            fails += 1
            pth = os.path.join(rd, 'exporter-%d.json' % fails)
            json.dump({'kind': 'exporter', 'sequence': e['seq'], 'expected': e['expect'], 'observed': log, 'detail': problem}, open(pth, 'w'), indent=1)
            if fails <= 5:
                v.add({'kind': 'predicate', 'key': 'C20/wedged', 'detail': problem, 'replay': pth})
    acc.edges = ran
    acc.samples = samples
    cov = {'evaluations': ran, 'distinct_nontrivial': ran, 'sequences_exhaustive_up_to_length': 2 if q else 3, 'sequences_sampled_longer': len(seqs_long),
           'behaviours_exercised': kinds, 'model_negative_control_as_found_is_wedged': True}
    rc = v.finish()
    cov.update({'rule': 'TLC enumerates every sequence of connection behaviours (client x observation socket) up to the stated length from Exporter.tla, with the expected '
                        'observation per connection, and samples longer ones by simulation; each sequence is executed against a fresh process of the real exporter, followed '
                        'by a well-formed request that must be answered 200 within 2 s with the process alive and idle; every sequence is distinct',
                'samples': samples or [{'note': 'none'}], 'states': acc.states, 'transitions': acc.transitions, 'suites': acc.suites, 'known_findings_seen': v.known})
    write_evidence('C20', tier, seed, 'fault_enumeration', cov, ['the exporter binary is the library entry point statime_linux::metrics_exporter_main built from /repo (the shipped binary is the same three-line wrapper)',
                                                                 'a client that stays connected and silent for ever is outside the property ("and then goes away")', 'loopback TCP, 2 s deadline'],
                   time.time() - t0, len(v.violations))
    return rc



def collect_metric_states(name, consts, limit, seed):
    """TLC (MCMetrics) -> list of distinct {hist, exp} (distinct by expected metrics)"""
    c = dict(consts)
    cfg = os.path.join(outdir('cfg'), name + '.cfg')
    write_cfg(cfg, constants=c, view='View', constraint='Bound', action_constraint='EmitMetrics')
    stats, text = run_tlc('MCMetrics.tla', cfg, name, workers=8, timeout=1500)
    if stats['errors']:
        raise ToolError('TLC error in %s: %s' % (name, stats['errors'][:2]))
    out = {}
    for ln in text.splitlines():
        if ln.startswith('<<"E", '):
            e = json.loads(json.loads(ln[len('<<"E", '):-2]))
            k = json.dumps(e['exp'], sort_keys=True)
            if k not in out or len(e['hist']) < len(out[k]['hist']):
                out[k] = e
    lst = sorted(out.values(), key=lambda e: json.dumps(e['exp'], sort_keys=True))
    import random
    random.Random(seed).shuffle(lst)
    return stats, lst[:limit], len(out)


def check_C19(tier, seed):
    import expdrv
    t0 = time.time()
    build('dev')
    v = Verdict('C19')
    acc = Acc()
    q = tier == 'quick'
    lim = 60 if q else 600
    suites = [
        ('C19-boundary', port_consts(['annP', 'annO', 'bmca', 'trcpt', 'q', 'so'], PCfg=('<-', 'PCfg_A'), AnnVar='{1, 2, 3, 4}', Depth=5 if q else 6), world([e2e(), e2e()])),
        ('C19-path-trace', port_consts(['x_ann', 'annP', 'bmca', 'trcpt'], PCfg=('<-', 'PCfg_A'), PTrace=True, Prefix=('<-', 'PrefixSlave'), Depth=3 if q else 4), world([e2e(), e2e()], ptrace=True)),
        ('C19-p2p', port_consts(['tdreq', 'ts', 'pd', 'trcpt', 'annP', 'bmca'], PCfg=('<-', 'PCfg_AP'), MaxRep=1, Depth=6 if q else 7), world(asym([e2e(), p2p()]))),
        # the port the exchanges run on is the peer-to-peer one: measured link delays in every port state; two P2P ports: one sample per port
        ('C19-p2p-first', port_consts(['tdreq', 'ts', 'pd', 'trcpt', 'annP', 'bmca'], PCfg=('<-', 'PCfg_PA'), MaxRep=1, Depth=6 if q else 7), world(asym([p2p(), e2e()]))),
        ('C19-p2p-both', port_consts(['tdreq', 'ts', 'pd', 'trcpt'], PCfg=('<-', 'PCfg_PP'), MaxRep=1, Depth=5 if q else 6), world(asym([p2p(), p2p()]))),
    ]
    ests = [(0, 0), (1 << 32, 1), (-(1 << 32), 3 << 30), (999_000 << 32, 400_000 << 32), (-(1_001_000 << 32) - 12345, (123 << 32) + 999),
            ((10_000_000_000 << 32) + 0xfffffff, (10_000_000_000 << 32) - 1), (-(10_000_000_000 << 32) - 1, 5), (-(7_123_456_789 << 32), (9_999_999_999 << 32) + 77)]
    cases = []
    for name, c, w in suites:
        stats, states, ndist = collect_metric_states(name, c, lim, seed)
        acc.add(name, stats)
        acc.suites[-1]['distinct_metric_states'] = ndist
        for i, e in enumerate(states):
            off, dl = ests[(i + len(cases)) % len(ests)]
            cases.append({'cfg': dict(w, seed=seed), 'hist': e['hist'], 'est': {'off': str(off), 'delay': str(dl)}, 'exp': e['exp'], 'suite': name})
    dumps = obsdump([{k: c[k] for k in ('cfg', 'hist', 'est')} for c in cases])
    rd = outdir('replay', 'C19'); vlib.clean_dir(rd)
    rig = expdrv.Rig(binpath('exporter'), os.path.join(OUT, 'exprig19'), dumps[0]['json'])
    fails = 0
    samples = []
    checked_values = 0
    try:
        if not rig.start_clean():
            raise ToolError('the exporter did not start answering')
        for case, d in zip(cases, dumps):
            rig.valid_json = d['json'].encode()
            status = rig.request('get', 'valid')
            problems = []
            raw = getattr(rig, 'last', b'')
            head, _, body = raw.partition(b'\r\n\r\n')
            if status != '200':
                problems.append('HTTP status %s' % status)
            else:
                cl = [int(l.split(b':')[1]) for l in head.split(b'\r\n') if l.lower().startswith(b'content-length')]
                if not cl or cl[0] != len(body):
                    problems.append('Content-Length %s but the body has %d octets' % (cl, len(body)))
                metrics, probs, declared = expdrv.parse_exposition(body.decode('utf-8', 'replace'))
                problems += probs
                exp = case['exp']
                ids = d['ids']
                own = ids[str(case['cfg']['own']['id'])]
                def get(name, **labels):
                    r = [val for (n, lab, val) in metrics if n == name and all(lab.get(k) == vv for k, vv in labels.items())]
                    return r
                def want(name, value, **labels):
                    nonlocal checked_values
                    checked_values += 1
                    got = get(name, **labels)
                    if len(got) != 1:
                        problems.append('%s%s: %d samples' % (name, labels, len(got)))
                    elif float(got[0]) != float(value):
                        problems.append('%s%s = %s, the instance has %s' % (name, labels, got[0], value))
                for k, val in exp.items():
                    if k.startswith('statime_') and not isinstance(val, (list, dict)):
                        if k == 'statime_current_utc_offset_seconds':
                            if val == 99999:
                                if get(k):
                                    problems.append('utc offset exported although it is not valid')
                            else:
                                want(k, val, clock_identity=own)
                        elif k.startswith('statime_grandmaster'):
                            want(k, val, clock_identity=own, parent_clock_identity=ids[str(exp['parent'][0])], parent_port_number=str(exp['parent'][1]))
                        else:
                            want(k, val, clock_identity=own)
                for i, code in enumerate(exp['statime_port_state']):
                    want('statime_port_state', code, port=str(i + 1), clock_identity=own)
                # path trace: entries numbered from the grandmaster, the local clock last
                for i, node in enumerate(exp['path']):
                    want('statime_path_trace_list', i, node=ids[str(node)])
                want('statime_path_trace_list', len(exp['path']), node='self')
                if len(get('statime_path_trace_list')) != len(exp['path']) + 1:
                    problems.append('path trace list has %d samples, expected %d' % (len(get('statime_path_trace_list')), len(exp['path']) + 1))
                # values that come from the filter and the port: compared with the live getters across the JSON hop
                off = d['est']['off_ns'] if d['slave_contribution'] else 0.0
                dl = d['est']['delay_ns'] if d['slave_contribution'] else 0.0
                for name, val in (('statime_offset_from_master_nanoseconds', off), ('statime_mean_delay_nanoseconds', dl)):
                    got = get(name, clock_identity=own)
                    checked_values += 1
                    if len(got) != 1 or abs(float(got[0]) - val) > 1e-9 * max(1.0, abs(val)):
                        problems.append('%s = %s, the live estimate is %r ns' % (name, got, val))
                if d['slave_contribution'] != exp['has_slave']:
                    problems.append('contribution of the slave port present: %s, model: %s' % (d['slave_contribution'], exp['has_slave']))
                for i, isp2p in enumerate(exp['p2p']):
                    got = get('statime_mean_link_delay_nanoseconds', port=str(i + 1))
                    if isp2p:
                        # the live value is the port's own mean delay (hook snapshot, 2^-32 ns), not what the getter under test reports
                        smd = d['live']['snap'][i]['md']
                        md = (int(smd) >> 16) if smd is not None else 0
                        checked_values += 1
                        if len(got) != 1 or abs(float(got[0]) - md / 65536.0) > 1e-6:
                            problems.append('mean link delay of port %d = %s, the port has %s (2^-16 ns)' % (i + 1, got, md))
                    elif got:
                        problems.append('mean link delay exported for E2E port %d' % (i + 1))
            if len(samples) < 3 and len(case['hist']) >= 3:
                samples.append({'history': case['hist'][-3:], 'expected_metrics': {k: case['exp'][k] for k in list(case['exp'])[:8]}, 'http_status': status})
            if problems:
                fails += 1
                pth = os.path.join(rd, 'metrics-%d.json' % fails)
                json.dump({'kind': 'metrics', 'cfg': case['cfg'], 'hist': case['hist'], 'expected': case['exp'], 'problems': problems, 'response': raw.decode('utf-8', 'replace')[:6000]}, open(pth, 'w'), indent=1)
                if fails <= 5:
                    v.add({'kind': 'mismatch', 'key': 'C19/metric', 'detail': '; '.join(problems[:3]), 'replay': pth})
    finally:
        rig.close()
    rc = v.finish()
    cov = {'evaluations': len(cases), 'distinct_nontrivial': len(cases), 'metric_values_compared': checked_values,
           'rule': 'TLC explores three instance configurations (boundary clock with parent changes / quality / slave-only, path trace with lists of 0..128 entries, P2P port with peer '
                   'delay exchanges) and attaches to every state the metrics it must show (Metrics.tla); states with distinct expected metrics are kept; for each the history is '
                   'replayed on real objects, the observable state assembled from the real getters as the daemon does, serialised, served on a unix socket to the real exporter, '
                   'fetched over HTTP and every metric compared; filter estimates cycle through 0, +-1 ns, +-1 ms, +-10 s (more than 64 bits in fixed point)',
           'samples': samples or [{'note': 'none'}], 'states': acc.states, 'transitions': acc.transitions, 'suites': acc.suites}
    write_evidence('C19', tier, seed, 'exploration', cov, ['the exporter binary is statime_linux::metrics_exporter_main built from /repo', 'the assembly of the observable state mirrors statime-linux/src/main.rs (not callable as a function)',
                                                           'conformance of the real getters with the specification state is established by the other checks'], time.time() - t0, len(v.violations))
    return rc



# ------------------------------------------------------------------------------------------------ Binding B for the instance specification

INST_TRACE_VARIANTS = {
    # variant of harness/src/bin/record.rs -> constants of specs/TraceInstance.tla
    'A': {'PCfg': ('<-', 'TI_PCfg_A'), 'PTrace': False},     # two ordinary E2E ports
    'B': {'PCfg': ('<-', 'TI_PCfg_B'), 'PTrace': True},      # path trace on, port 2 master-only
    'D': {'PCfg': ('<-', 'TI_PCfg_D'), 'PTrace': False},     # acceptable master list on port 1, P2P port 2, master-only port 3
    'M': {'PCfg': ('<-', 'TI_PCfg_A'), 'PTrace': False},     # as A, Announces from fourteen distinct sources (the list holds eight)
    'P': {'PCfg': ('<-', 'TI_PCfg_A'), 'PTrace': False, 'OwnP': ('<-', 'TI_OwnP_P')},   # as A, own priority1 and priority2 differ
    'S': {'PCfg': ('<-', 'TI_PCfg_A'), 'PTrace': False, 'SO0': True},   # as A, the instance is slave-only from creation
    'K': {'PCfg': ('<-', 'TI_PCfg_K'), 'PTrace': False},     # port 2: announce interval 2 s (foreign masters age half as fast), sync 0.5 s, delay request 4 s
    'F': {'PCfg': ('<-', 'TI_PCfg_A'), 'PTrace': True, 'Fwd': True},   # boundary clock: path trace and the real TlvForwarder between the ports
}
INST_TRACE_INVARIANTS = ['OneSlave', 'MasterOnlyNeverSlave', 'ParentQualified']


def _split_runs(lines):
    """[(first line index, last line index exclusive)] of the runs of a recorded trace (a run starts at a reset line)"""
    starts = [i for i, l in enumerate(lines) if '"e":"reset"' in l]
    return [(a, b) for a, b in zip(starts, starts[1:] + [len(lines)])]


def run_inst_traces(prop, verdict, acc, owns, tier, seed, variants=('A', 'B', 'D'), events=None, invariants=INST_TRACE_INVARIANTS):
    """Binding B: long random histories of host calls on a real PtpInstance are recorded (one line per public call: the abstract
    event and the projected post-state) and TLC accepts a trace iff every step is the step Instance.tla takes. A departure names
    the fields that differ; the ownership rule decides whether it is a violation of `prop`; validation resumes at the next run."""
    q = tier == 'quick'
    events = events or (20000 if q else 200000)
    td = outdir('traces', prop + '-inst'); vlib.clean_dir(td)
    keepdir = outdir('replay', prop + '-insttrace'); vlib.clean_dir(keepdir)
    total = {'events_validated': 0, 'runs': 0, 'departures': {}, 'foreign': {}, 'variants': list(variants)}
    for var in variants:
        tr = os.path.join(td, 'inst-%s.ndjson' % var)
        r = subprocess.run([binpath('record'), '--variant', var, '--seed', str(seed), '--events', str(events), '--runlen', '400', '--trace', tr, '--replay-dir', keepdir],
                           cwd=ROOT, stdout=subprocess.PIPE, stderr=subprocess.PIPE, text=True, timeout=1800)
        if r.returncode != 0:
            raise ToolError('record failed: %s' % (r.stderr or r.stdout)[-1500:])
        rep = json.loads(r.stdout)
        total['runs'] += rep['runs']
        if rep.get('panics'):
            if not callable(owns) and vlib.owned('panic', owns):
                for it in rep.get('panic_keeps', []):
                    verdict.add({'kind': 'panic', 'key': 'panic', 'detail': 'recorded run (variant %s) panicked: %s (last event %s)' % (var, str(it.get('panic'))[:200], json.dumps(it.get('last'))[:200]),
                                 'replay': it['replay'], 'suite': prop + '-insttrace', 'count': 1})
            else:
                verdict.notes.append('record (%s): %d runs ended in a panic of the code under test (reported by C03)' % (var, rep['panics']))
        total['panics'] = total.get('panics', 0) + rep.get('panics', 0)
        lines = open(tr).read().splitlines()
        runs = _split_runs(lines)
        consts = {'Own': ('<-', 'TI_Own'), 'OwnP': ('<-', 'TI_OwnP'), 'Q0': ('<-', 'TI_Q0'), 'TP0': ('<-', 'TI_TP0'), 'SO0': False, 'Fwd': False,
                  'EmptyOnBmca': False, 'DevDup': True, 'SeqMod': 65536, 'Ghost': True}
        consts.update(INST_TRACE_VARIANTS[var])
        cfg = os.path.join(outdir('cfg'), '%s-insttrace-%s.cfg' % (prop, var))
        write_cfg(cfg, spec='TSpec', constants=consts, invariants=invariants, postcondition='Accepted')
        start = 0          # index of the first line still to validate
        rounds = 0
        CH = 20000         # lines per TLC run
        while start < len(lines) and rounds < 40:
            rounds += 1
            # a chunk ends at a run boundary
            end = len(lines)
            for a, b in runs:
                if a >= start + CH:
                    end = a
                    break
            part = os.path.join(td, 'part-%s-%d.ndjson' % (var, rounds))
            open(part, 'w').write('\n'.join(lines[start:end]) + '\n')
            name = '%s-insttrace-%s-%d' % (prop, var, rounds)
            stats, text = run_tlc('TraceInstance.tla', cfg, name, workers=1, timeout=1800, env={'TRACE': part},
                                  jvm=['-Xss1g', '-Dtlc2.tool.queue.IStateQueue=StateDeque'], xmx='4g')
            acc.states += stats['distinct']; acc.transitions += stats['generated']
            if 'No error has been found' in text and 'MISMATCH' not in text:
                total['events_validated'] += end - start
                start = end
                os.remove(part)
                continue
            m = re.search(r'"MISMATCH",\s*(\d+),\s*\{([^}]*)\}', text)
            viol = stats['violated']
            if not m and not viol:
                raise ToolError('trace validation %s: %s' % (name, (stats['errors'] or [text[-600:]])[:2]))
            if m:
                k = start + int(m.group(1)) - 1                 # index (0-based) of the line that departs
                fields = sorted(x.strip().strip('"') for x in m.group(2).split(',') if x.strip())
            else:
                # an invariant of the trace configuration is false in an observed state
                k = start + max(stats['generated'] - 2, 0)
                fields = ['inv:' + x for x in viol]
            total['events_validated'] += k - start
            a, b = next((a, b) for a, b in runs if a <= k < b)
            reset = json.loads(lines[a])
            evs = [json.loads(l)['ev'] for l in lines[a + 1:k + 1]]
            keep = os.path.join(keepdir, 'departure-%s-%d.json' % (var, k + 1))
            json.dump({'kind': 'insttrace', 'property': prop, 'variant': var, 'cfg': reset.get('cfg'), 'events': evs, 'fields': fields,
                       'observed': json.loads(lines[k]).get('obs') if k < len(lines) else None}, open(keep, 'w'))
            for fld in fields:
                total['departures'][fld] = total['departures'].get(fld, 0) + 1
                mine = owns(fld, evs[-1] if evs else {}, json.loads(lines[k - 1]).get('obs') if k - 1 > a else None, var) if callable(owns) else vlib.owned(fld, owns)
                if (fld.startswith('inv:') and not callable(owns)) or mine:
                    verdict.add({'kind': 'trace', 'key': ('trace:' + fld) if fld.startswith('inv:') else fld,
                                 'detail': 'recorded execution (variant %s, run of %d calls, last %s) is not a behaviour of Instance.tla: departs in %s'
                                           % (var, len(evs), json.dumps(evs[-1])[:200] if evs else '-', fields), 'replay': keep, 'suite': name, 'count': 1})
                else:
                    total['foreign'][fld] = total['foreign'].get(fld, 0) + 1
            start = b        # resume at the next run
            os.remove(part)
    acc.edges += total['events_validated']
    acc.events += total['events_validated']
    acc.suites.append({'suite': prop + '-insttrace', 'driver': 'harness/src/bin/record.rs', 'validated_by': 'specs/TraceInstance.tla', **total})
    if total['foreign']:
        verdict.notes.append('instance traces: departures in fields not owned by %s (reported by their owners): %s' % (prop, total['foreign']))
    return total


def replay_insttrace(path):
    """bin/check replay <departure file>: the kept events are executed again on a fresh real instance and validated again"""
    keep = json.load(open(path))
    td = outdir('traces', 'replay'); vlib.clean_dir(td)
    tr = os.path.join(td, 'rerun.ndjson')
    r = subprocess.run([binpath('record'), '--rerun', path, '--trace', tr], cwd=ROOT, stdout=subprocess.PIPE, text=True, timeout=600)
    print(r.stdout.strip())
    var = keep['variant']
    consts = {'Own': ('<-', 'TI_Own'), 'OwnP': ('<-', 'TI_OwnP'), 'Q0': ('<-', 'TI_Q0'), 'TP0': ('<-', 'TI_TP0'), 'SO0': False, 'Fwd': False,
              'EmptyOnBmca': False, 'DevDup': True, 'SeqMod': 65536, 'Ghost': True}
    consts.update(INST_TRACE_VARIANTS[var])
    cfg = os.path.join(outdir('cfg'), 'replay-insttrace.cfg')
    write_cfg(cfg, spec='TSpec', constants=consts, invariants=INST_TRACE_INVARIANTS, postcondition='Accepted')
    stats, text = run_tlc('TraceInstance.tla', cfg, 'replay-insttrace', workers=1, timeout=600, env={'TRACE': tr},
                          jvm=['-Xss1g', '-Dtlc2.tool.queue.IStateQueue=StateDeque'], xmx='4g')
    if 'No error has been found' in text and 'MISMATCH' not in text:
        print('accepted: the re-executed run is a behaviour of Instance.tla')
        return 0
    m = re.search(r'"MISMATCH",\s*(\d+),\s*\{([^}]*)\}', text)
    print('REJECTED: %s' % (('line %s departs in {%s}' % (m.group(1), m.group(2))) if m else stats['violated'] or stats['errors'][:2]))
    print('last event: %s' % json.dumps(keep['events'][-1] if keep['events'] else None))
    return 1


# ------------------------------------------------------------------------------------------------ C13

def validate_trace(module, trace_path, name, timeout=600):
    """Binding B: TLC validates one ndjson trace against a trace specification. Returns (accepted, message)"""
    cfg = os.path.join(outdir('cfg'), name + '.cfg')
    open(cfg, 'w').write('SPECIFICATION TSpec\nPOSTCONDITION Accepted\nCHECK_DEADLOCK FALSE\n')
    stats, text = run_tlc(module, cfg, name, workers=1, timeout=timeout, env={'TRACE': trace_path}, jvm=['-Xss1g', '-Dtlc2.tool.queue.IStateQueue=StateDeque'], xmx='4g')
    if 'No error has been found' in text and 'REJECTED' not in text:
        return True, '', stats
    m = None
    import re
    m = re.search(r'"REJECTED at line",\s*(\d+),\s*(.*)', text, re.S)
    if m:
        return False, 'line %s: %s' % (m.group(1), ' '.join(m.group(2).split())[:300]), stats
    if re.search(r'Postcondition \S+ .*is false', text, re.S) or stats['violated']:
        return False, 'rejected: ' + '; '.join(stats['violated'] or ['postcondition false']), stats
    if stats['errors']:
        raise ToolError('trace validation %s: %s' % (name, stats['errors'][:2]))
    return False, 'rejected (no position reported)', stats


def check_C13(tier, seed):
    t0 = time.time()
    build('dev')
    v = Verdict('C13')
    acc = Acc()
    q = tier == 'quick'
    td = outdir('traces', 'C13'); vlib.clean_dir(td)
    rep = run_driver('servo', ['--seed', str(seed), '--runs', '1200' if q else '40000', '--trace', os.path.join(td, 'servo')], 'C13-servo', timeout=3000)
    acc.suites.append({'suite': 'C13-servo', 'driver': 'harness/src/bin/servo.rs', 'result': {k: rep[k] for k in rep if k != 'violations'}})
    for item in rep.get('violations', []):
        v.add({'kind': 'predicate', 'key': item['key'], 'detail': item['detail'], 'replay': item['replay'], 'count': rep['by_kind'].get(item['key'], 1)})
    # Binding B: every recorded trace chunk must be a behaviour of Servo.tla
    events = 0
    chunks = rep['trace_chunks'] if q else min(rep['trace_chunks'], 60)
    for i in range(chunks):
        path = os.path.join(td, 'servo.%d.ndjson' % i)
        ok, msg, stats = validate_trace('TraceServo.tla', path, 'C13-trace-%d' % i)
        acc.states += stats['distinct']
        acc.transitions += stats['generated']
        n = sum(1 for _ in open(path))
        events += n
        if not ok:
            keep = os.path.join(outdir('replay', 'C13-servo'), 'rejected-trace-%d.ndjson' % i)
            shutil.copy(path, keep)
            v.add({'kind': 'trace', 'key': 'C13/trace-rejected', 'detail': 'recorded trace is not a behaviour of Servo.tla: ' + msg, 'replay': keep})
    # the binding bites: a trace with one out-of-bound command must be rejected
    ctl = os.path.join(td, 'control.ndjson')
    lines = open(os.path.join(td, 'servo.0.ndjson')).read().splitlines()
    done = False
    for i, ln in enumerate(lines):
        e = json.loads(ln)
        if e['e'] == 'freq' and not done and i > 50:
            e['mag'] = 999999999
            lines[i] = json.dumps(e)
            done = True
    open(ctl, 'w').write('\n'.join(lines) + '\n')
    ok, msg, _ = validate_trace('TraceServo.tla', ctl, 'C13-trace-control')
    if ok or not done:
        raise ToolError('negative control: a trace with an out-of-bound frequency command was accepted')
    acc.edges = chunks
    acc.events = rep['measurements']
    cov = {'states': acc.states, 'transitions': acc.transitions, 'traces_validated_against_impl': chunks, 'trace_events_validated': events,
           'evaluations': rep['measurements'], 'distinct_nontrivial': rep['commands'],
           'rule': 'adversarial measurement sequences (nine families: regular, equal event times, event times running backwards, zero-variance samples, alternating kinds, identical sync/delay samples alternating at one event time, offsets up to '
                   '+-1e9 s, intermittently failing clock, sign-alternating offsets) x servo configurations (step threshold 1 us .. 0.5 s, max frequency 1 .. 5000 ppm) into the real '
                   'KalmanFilter / BasicFilter; every clock command is one trace event; non-trivial = a measurement that produced at least one command (counted: commands)',
           'samples': [{'first_events_of_trace': [json.loads(x) for x in lines[:12]]}], 'suites': acc.suites,
           'negative_control_rejected_at': msg, 'known_findings_seen': v.known}
    rc = v.finish()
    write_evidence('C13', tier, seed, 'exploration', cov,
                   ['TLC is the oracle on recorded traces, not the explorer of the numeric state space', 'the mock clock moves by exactly the commanded steps and reports the time of each command',
                    'frequency bound checked for the Kalman servo only (the property bounds only it); finiteness for both filters'], time.time() - t0, len(v.violations))
    return rc



# ------------------------------------------------------------------------------------------------ C02

def check_C02(tier, seed):
    t0 = time.time()
    build('release')
    v = Verdict('C02')
    acc = Acc()
    q = tier == 'quick'
    td = outdir('traces', 'C02'); vlib.clean_dir(td)
    rep = run_driver('servoloop', ['--seed', str(seed), '--runs', '40' if q else '2430', '--trace', os.path.join(td, 'loop')], 'C02-loop', profile='release', timeout=3000)
    for f in rep.get('failures', []):
        pth = os.path.join(outdir('replay', 'C02-loop'), 'failure-%d.json' % len(v.violations))
        json.dump(f, open(pth, 'w'), indent=1)
        v.add({'kind': 'predicate', 'key': 'C02/run', 'detail': 'closed-loop run failed: %s' % f['error'], 'replay': pth})
    events = 0
    nchunks = rep['trace_chunks']
    for i in range(nchunks):
        path = os.path.join(td, 'loop.%d.ndjson' % i)
        ok, msg, stats = validate_trace('TraceLoop.tla', path, 'C02-trace-%d' % i)
        acc.states += stats['distinct']
        acc.transitions += stats['generated']
        events += sum(1 for _ in open(path))
        if not ok:
            keep = os.path.join(outdir('replay', 'C02-loop'), 'rejected-trace-%d.ndjson' % i)
            shutil.copy(path, keep)
            v.add({'kind': 'trace', 'key': 'C02/trace-rejected', 'detail': 'closed-loop trace is not accepted by TraceLoop.tla: ' + msg, 'replay': keep})
    # the binding bites: an observation above the bound after Tconv must be rejected
    lines = open(os.path.join(td, 'loop.0.ndjson')).read().splitlines()
    new = json.loads(lines[0])
    for i in range(len(lines) - 1, 0, -1):
        e = json.loads(lines[i])
        if e['e'] == 'new':
            break
    ctl = os.path.join(td, 'control.ndjson')
    done = False
    for i, ln in enumerate(lines):
        e = json.loads(ln)
        if e['e'] == 'new':
            new = e
        if e['e'] == 'obs' and e['t'] >= new['tconv'] and not done:
            e['off'] = new['bound'] + 1
            lines[i] = json.dumps(e)
            done = True
    open(ctl, 'w').write('\n'.join(lines) + '\n')
    ok, msg, _ = validate_trace('TraceLoop.tla', ctl, 'C02-trace-control')
    if ok or not done:
        raise ToolError('negative control: a trace with an offset above the bound after Tconv was accepted')
    cells = rep['cells']
    worst = {}
    for c in cells:
        w = worst.setdefault(str(c['jitter_us']), {'tail_max_ns': 0, 'last_above_bound_s': 0})
        w['tail_max_ns'] = max(w['tail_max_ns'], c['tail_max_ns'])
        w['last_above_bound_s'] = max(w['last_above_bound_s'], c['last_above_bound_s'])
    cov = {'states': acc.states, 'transitions': acc.transitions, 'traces_validated_against_impl': nchunks, 'trace_events_validated': events,
           'evaluations': len(cells), 'distinct_nontrivial': len(set(json.dumps([c[k] for k in ('offset_s', 'err_ppm', 'delay_us', 'jitter_us', 'log_sync', 'two_step')]) for c in cells)),
           'rule': 'cells of the grid offset {0, +-999 us, +-1.001 ms, +-1 s, +-10 s} x oscillator error {0, +-50, +-150 ppm} x one-way delay {1, 100, 400 us} x jitter {0, 1, 20 us} x '
                   'sync/delay interval {2^-3, 1, 2 s} x {one, two}-step (quick: the four corners + a seeded sample; thorough: 2430 cells), each a closed-loop run of Tconv + 200 s of a real '
                   'port with the real Kalman servo; every run is distinct; all are non-trivial (the servo has to acquire)',
           'samples': cells[:3], 'worst_per_jitter_us': worst, 'negative_control_rejected_at': msg,
           'frozen_constants': {'Tconv_s': 'max(1200, 600 sync intervals)', 'Bound_ns': '500 + 3 * jitter_ns'}, 'known_findings_seen': v.known}
    rc = v.finish()
    write_evidence('C02', tier, seed, 'exploration', cov,
                   ['TLC is the oracle on recorded closed-loop traces, not the explorer of the servo state space', 'simulated master, path (symmetric delay, uniform jitter) and oscillator (constant frequency error) in double precision',
                    'Bound and Tconv are empirical: calibrated once on the unchanged tree over 12 150 runs with a margin of at least 3'], time.time() - t0, len(v.violations))
    return rc



# ------------------------------------------------------------------------------------------------ C01

NET_NODE = lambda p1, cls=248, so=False, nports=1, p2=128: {'p1': p1, 'class': cls, 'so': so, 'nports': nports, 'p2': p2}


def NET(n, topo, prio, cls, so, npp, nodes, wtopo, prio2=None, cut0=None, wcut0=()):
    return {'n': n, 'topo': topo, 'prio': prio, 'cls': cls, 'so': so, 'npp': npp, 'nodes': nodes, 'wtopo': wtopo,
            'prio2': prio2 or {2: 'P2_2', 3: 'P2_3', 4: 'P2_4'}[n], 'cut0': cut0 or 'NoCut', 'wcut0': list(wcut0)}


LINK = [[[1, 1], [2, 1]]]
RING3 = [[[1, 1], [2, 1]], [[2, 2], [3, 1]], [[3, 2], [1, 2]]]
NETS = {
    'link-12': NET(2, 'Topo_Link', 'Prio_12', 'Cls_2', 'So_2', 'NP_11', [NET_NODE(100), NET_NODE(200)], LINK),
    'link-21': NET(2, 'Topo_Link', 'Prio_21', 'Cls_2', 'So_2', 'NP_11', [NET_NODE(200), NET_NODE(100)], LINK),
    'link-eq': NET(2, 'Topo_Link', 'Prio_Eq2', 'Cls_2', 'So_2', 'NP_11', [NET_NODE(128), NET_NODE(128)], LINK),
    # priority2 decides
    'link-p2': NET(2, 'Topo_Link', 'Prio_Eq2', 'Cls_2', 'So_2', 'NP_11', [NET_NODE(128, p2=127), NET_NODE(128, p2=126)], LINK, prio2='P2_2dec'),
    'link-lowclass': NET(2, 'Topo_Link', 'Prio_12', 'Cls_2low', 'So_2', 'NP_11', [NET_NODE(100), NET_NODE(200, cls=6)], LINK),
    # a slave-only node ranks below the master-capable ones (IEEE 1588: clockClass 255); one whose own data set ranks above every announced
    # master is recommended M2 and stays LISTENING (Figure 31) - a configuration outside the property, see DESIGN.md
    'link-slaveonly': NET(2, 'Topo_Link', 'Prio_12', 'Cls_2so', 'So_2b', 'NP_11', [NET_NODE(100), NET_NODE(200, cls=255, so=True)], LINK),
    'link-slaveonly-eqprio': NET(2, 'Topo_Link', 'Prio_Eq2', 'Cls_2so', 'So_2b', 'NP_11', [NET_NODE(128), NET_NODE(128, cls=255, so=True)], LINK),
    'parallel': NET(2, 'Topo_Par', 'Prio_12', 'Cls_2', 'So_2', 'NP_22', [NET_NODE(100, nports=2), NET_NODE(200, nports=2)], [[[1, 1], [2, 1]], [[1, 2], [2, 2]]]),
    # the second of two parallel links comes up after the network has converged over the first
    'parallel-restore': NET(2, 'Topo_Par', 'Prio_12', 'Cls_2', 'So_2', 'NP_22', [NET_NODE(100, nports=2), NET_NODE(200, nports=2)], [[[1, 1], [2, 1]], [[1, 2], [2, 2]]],
                            cut0='Cut_Par', wcut0=[1]),
    'multi': NET(2, 'Topo_Multi', 'Prio_12', 'Cls_2', 'So_2', 'NP_21', [NET_NODE(100, nports=2), NET_NODE(200)], [[[1, 1], [1, 2], [2, 1]]]),
    # the instance with two ports on the segment is the worse one: one port slave, the other passive by topology (no multiport disabling involved)
    'multi-rev': NET(2, 'Topo_Multi', 'Prio_21', 'Cls_2', 'So_2', 'NP_21', [NET_NODE(200, nports=2), NET_NODE(100)], [[[1, 1], [1, 2], [2, 1]]]),
    'chain3': NET(3, 'Topo_Chain3', 'Prio_321', 'Cls_3', 'So_3', 'NP_121', [NET_NODE(200), NET_NODE(150, nports=2), NET_NODE(100)], [[[1, 1], [2, 1]], [[2, 2], [3, 1]]]),
    # priority2 decides and the relay in the middle has the worst one
    'chain3-p2': NET(3, 'Topo_Chain3', 'Prio_Eq3', 'Cls_3', 'So_3', 'NP_121', [NET_NODE(128, p2=100), NET_NODE(128, nports=2, p2=128), NET_NODE(128, p2=110)],
                     [[[1, 1], [2, 1]], [[2, 2], [3, 1]]], prio2='P2_3relay'),
    'star3': NET(3, 'Topo_Star3', 'Prio_213', 'Cls_3', 'So_3', 'NP_211', [NET_NODE(150, nports=2), NET_NODE(100), NET_NODE(200)], [[[1, 1], [2, 1]], [[1, 2], [3, 1]]]),
    'ring3': NET(3, 'Topo_Ring3', 'Prio_123', 'Cls_3', 'So_3', 'NP_222', [NET_NODE(100, nports=2), NET_NODE(150, nports=2), NET_NODE(200, nports=2)], RING3),
    # the ring starts as a chain (link 3-1 down), converges, then the closing link comes up: a slave port has to turn passive
    'ring3-restore': NET(3, 'Topo_Ring3', 'Prio_123', 'Cls_3', 'So_3', 'NP_222', [NET_NODE(100, nports=2), NET_NODE(150, nports=2), NET_NODE(200, nports=2)], RING3,
                         cut0='Cut_Ring3', wcut0=[2]),
    'shared3': NET(3, 'Topo_Shared3', 'Prio_213', 'Cls_3so', 'So_3c', 'NP_111', [NET_NODE(150), NET_NODE(100), NET_NODE(200, cls=255, so=True)], [[[1, 1], [2, 1], [3, 1]]]),
    'chain4': NET(4, 'Topo_Chain4', 'Prio_3142', 'Cls_4', 'So_4', 'NP_1221', [NET_NODE(200), NET_NODE(100, nports=2), NET_NODE(250, nports=2), NET_NODE(150)],
                  [[[1, 1], [2, 1]], [[2, 2], [3, 1]], [[3, 2], [4, 1]]]),
    'ring4': NET(4, 'Topo_Ring4', 'Prio_1234', 'Cls_4', 'So_4', 'NP_2222', [NET_NODE(100, nports=2), NET_NODE(150, nports=2), NET_NODE(200, nports=2), NET_NODE(250, nports=2)],
                 [[[1, 1], [2, 1]], [[2, 2], [3, 1]], [[3, 2], [4, 1]], [[4, 2], [1, 2]]]),
}


def net_consts(name, K, faults='NoFaults', keep=False, depth=0, T=2, force=False):
    d = NETS[name]
    return {'N': d['n'], 'Topo': ('<-', d['topo']), 'Prio': ('<-', d['prio']), 'Prio2': ('<-', d['prio2']), 'Class': ('<-', d['cls']), 'SlaveOnly': ('<-', d['so']),
            'NPorts': ('<-', d['npp']), 'T': T, 'K': K, 'Faults': ('<-', faults), 'KeepHist': keep, 'Depth': depth, 'Cut0': ('<-', d['cut0']), 'ForceFault': force}


def net_world(name, **kw):
    d = {'nodes': NETS[name]['nodes'], 'topo': NETS[name]['wtopo'], 'timeout': 2, 'cut0': NETS[name]['wcut0']}
    d.update(kw)
    return d


def run_netsync(prop, verdict, acc, tier, seed):
    """Binding B at network level for the measurement path: free-running simulations of N real instances that exchange their own
    Sync / Follow_Up / Delay_Req / Delay_Resp frames (every node's clock off by a fixed theta, every segment with a fixed symmetric
    delay); every measurement a recording filter receives is logged and TLC (TraceNet.tla, MeasOK) accepts the run iff each one sits
    on a slave port and is exactly theta(slave) - theta(parent) / the segment's delay."""
    q = tier == 'quick'
    td = outdir('traces', prop + '-netsync'); vlib.clean_dir(td)
    nets = [('chain3', {'kind': 'silence', 'n': 3}), ('shared3', {'kind': 'quality', 'n': 1}), ('ring3', {'kind': 'cut', 'seg': 0}), ('chain4', {'kind': 'silence', 'n': 2}),
            ('parallel', {'kind': 'cut', 'seg': 1}), ('ring4', {'kind': 'quality', 'n': 4})]
    runs = meas = 0
    for i, (name, fault) in enumerate(nets[:2] if q else nets):
        for sd in range(1 if q else 5):
            w = net_world(name, timeout=3, quiet_rounds=16, fault_at_s=70, fault=fault, max_delay_ms=[1, 50, 400][(i + sd) % 3], sync=True)
            wp = os.path.join(td, 'sync-%s-%d.json' % (name, sd))
            json.dump(w, open(wp, 'w'))
            tr = os.path.join(td, 'sync-%s-%d.ndjson' % (name, sd))
            r = subprocess.run([binpath('netsim'), '--free', '--cfg', wp, '--seed', str(seed * 100 + sd), '--trace', tr, '--horizon', '160'], cwd=ROOT, stdout=subprocess.PIPE, text=True, timeout=600)
            if r.returncode != 0:
                raise ToolError('netsim --free failed on %s' % name)
            meas += json.loads(r.stdout).get('measurements', 0)
            ok, msg, stats = validate_trace('TraceNet.tla', tr, '%s-netsync-%s-%d' % (prop, name, sd))
            runs += 1
            acc.states += stats['distinct']; acc.transitions += stats['generated']
            if not ok:
                keep = os.path.join(outdir('replay', prop + '-netsync'), 'rejected-%s-%d.ndjson' % (name, sd))
                shutil.copy(tr, keep)
                verdict.add({'kind': 'trace', 'key': prop + '/netsync', 'detail': 'network of real instances exchanging their own Sync / Delay frames (%s, seed %d): %s' % (name, sd, msg), 'replay': keep})
    acc.events += meas
    acc.suites.append({'suite': prop + '-netsync', 'driver': 'harness/src/bin/netsim.rs --free (sync)', 'validated_by': 'specs/TraceNet.tla (MeasOK)', 'runs': runs, 'measurements_checked': meas})
    if meas == 0:
        raise ToolError('netsync: no measurement was taken (the simulation is vacuous)')


def check_C01(tier, seed):
    t0 = time.time()
    build('dev')
    v = Verdict('C01')
    acc = Acc()
    q = tier == 'quick'
    KS = 10
    # (1) exhaustive, complete state graph (no depth bound): two nodes, every ranking variant, with and without one fault
    plain = [('link-12', 'NoFaults'), ('link-21', 'NoFaults'), ('link-eq', 'NoFaults'), ('link-lowclass', 'NoFaults'), ('link-slaveonly', 'NoFaults'), ('link-slaveonly-eqprio', 'NoFaults'), ('link-p2', 'NoFaults')]
    if not q:
        # (two parallel links: the complete graph is too large for breadth-first search - replayed to a depth bound and simulated below)
        plain += [('link-12', 'AllFaults'), ('link-21', 'AllFaults'), ('link-eq', 'AllFaults'), ('link-p2', 'AllFaults'), ('link-slaveonly', 'AllFaults'), ('link-lowclass', 'AllFaults')]
    for name, faults in plain:
        cfg = os.path.join(outdir('cfg'), 'C01-%s-%s.cfg' % (name, faults))
        write_cfg(cfg, constants=net_consts(name, KS, faults), invariants=['Settle'], properties=['NoFlap'])
        stats, text = run_tlc('MCNet.tla', cfg, 'C01-%s-%s' % (name, faults), workers=8, timeout=900 if q else 3400)
        if stats['errors'] and not stats['violated']:
            raise ToolError('TLC error in C01-%s: %s' % (name, stats['errors'][:2]))
        acc.add('C01-%s-%s' % (name, faults), stats)
        acc.suites[-1]['complete_graph'] = stats['queue'] == 0 and not stats['violated']
        if stats['violated']:
            stats['text_trace'] = vlib.extract_trace(text)
            v.add({'kind': 'tlc', 'key': 'tlc:' + ','.join(stats['violated']), 'detail': 'Network.tla (%s, %s): %s violated' % (name, faults, stats['violated']),
                   'replay': write_tlc_counterexample('C01', 'C01-%s-%s' % (name, faults), stats)})
    # K is tight: with K - 2 the same model has a counterexample (the bound is found, not assumed)
    cfg = os.path.join(outdir('cfg'), 'C01-link-12-k8.cfg')
    write_cfg(cfg, constants=net_consts('link-12', KS - 2), invariants=['Settle'])
    st8, _ = run_tlc('MCNet.tla', cfg, 'C01-link-12-k8', workers=8, timeout=900)
    tight = 'Settle' in st8['violated']
    # two ports of one instance on one segment: the recorded finding (the passive sibling flaps)
    cfg = os.path.join(outdir('cfg'), 'C01-multi.cfg')
    write_cfg(cfg, constants=net_consts('multi', KS), invariants=['Settle'], properties=['NoFlap'])
    # (random simulation: the breadth-first graph of this configuration is large and the flap needs K quiet rounds first)
    stm, textm = run_tlc('MCNet.tla', cfg, 'C01-multi', workers=4, timeout=900, extra=['-simulate', 'num=%d' % (3000 if q else 30000), '-depth', '300', '-seed', str(seed)])
    acc.add('C01-multi', stm)
    if stm['violated']:
        stm['text_trace'] = vlib.extract_trace(textm)
        v.add({'kind': 'tlc', 'key': 'tlc:multiport:' + ','.join(stm['violated']), 'detail': 'Network.tla (two ports of one instance on one segment): %s violated' % stm['violated'],
               'replay': write_tlc_counterexample('C01', 'C01-multi', stm)})
    else:
        v.notes.append('C01-multi: the design-level counterexample of the recorded finding was not found')
    # (2) Binding A: every edge of the two-node link graph, and simulated behaviours of three- and four-node networks, on real instances
    # simulated behaviours: the fault is forced as soon as the network has been quiet for K rounds (every behaviour has its fault and its
    # re-convergence); K for three and four nodes is empirical (150 forced-fault behaviours per topology hold with 14)
    KSIM = {2: 12, 3: 16, 4: 20}
    def replay_net(name, consts, simulate=None, invariants=('Settle',)):
        cfgp = os.path.join(outdir('cfg'), name + '.cfg')
        write_cfg(cfgp, constants=consts, invariants=list(invariants), view='View', constraint='Bound', action_constraint='Emit')
        wpath = os.path.join(outdir('cfg'), name + '.world.json')
        json.dump(net_world(name.split('-r-')[1]), open(wpath, 'w'))
        rd = outdir('replay', name); vlib.clean_dir(rd)
        extra = ['-simulate', 'num=%d' % simulate[0], '-depth', str(simulate[1]), '-seed', str(seed)] if simulate else []
        stats, rep = vlib.pipe_tlc('MCNet.tla', cfgp, name, [binpath('netsim'), '--replay', '--cfg', wpath, '--replay-dir', rd], timeout=3400, extra=extra)
        acc.add(name, stats)
        acc.edges += rep['edges']; acc.events += rep['events']
        acc.suites[-1].update({'edges_replayed': rep['edges'], 'api_calls': rep['events'], 'mismatch_by_field': rep['mismatch_by_field'], 'last_event_kinds': rep.get('last_event_kinds')})
        acc.samples += rep.get('samples', [])[:2]
        if stats['violated']:
            stats_t = dict(stats)
            v.add({'kind': 'tlc', 'key': 'tlc:' + ','.join(stats['violated']), 'detail': '%s: %s violated' % (name, stats['violated']), 'replay': write_tlc_counterexample('C01', name, stats_t)})
        for item in rep.get('violations', []):
            v.add({'kind': 'mismatch', 'key': 'C01/replay', 'detail': item['detail'], 'replay': item['replay']})
    replay_net('C01-r-link-12', net_consts('link-12', KS, keep=True, depth=60 if q else 400))
    if not q:
        replay_net('C01-r-link-21', net_consts('link-21', KS, 'AllFaults', keep=True, depth=400))
        replay_net('C01-r-parallel', net_consts('parallel', KS, keep=True, depth=26))
    for name in (['chain3', 'shared3', 'chain3-p2'] if q else ['chain3', 'star3', 'ring3', 'shared3', 'chain4', 'ring4', 'chain3-p2']):
        replay_net('C01-r-' + name, net_consts(name, KSIM[NETS[name]['n']], 'AllFaults', keep=True, depth=900, force=True), simulate=(4 if q else 30, 800))
    # two ports of the WORSE instance on one segment: one slave, one passive by topology. (Silencing the better node would turn this into the
    # recorded multiport finding - the instance then wants to be master on both ports - so the fault here is a quality change.)
    replay_net('C01-r-multi-rev', net_consts('multi-rev', KSIM[2], 'QualityFaults', keep=True, depth=600, force=True), simulate=(4 if q else 30, 500))
    # a link that comes up after the network has converged without it (a slave port has to turn passive)
    for name in (['ring3-restore'] if q else ['ring3-restore', 'parallel-restore']):
        replay_net('C01-r-' + name, net_consts(name, KSIM[NETS[name]['n']], 'RestoreFaults', keep=True, depth=900, force=True), simulate=(4 if q else 30, 800))
    # two ports of one instance on one segment: the model (which flaps, recorded finding) is still what the code does, edge by edge
    replay_net('C01-r-multi', net_consts('multi', 40, keep=True, depth=400), simulate=(3 if q else 20, 300), invariants=())
    # (3) Binding B: free-running simulations of real instances (real timer durations, delays, drift, one fault), validated by TraceNet
    td = outdir('traces', 'C01'); vlib.clean_dir(td)
    free = [('chain3', {'kind': 'silence', 'n': 3}), ('ring3', {'kind': 'cut', 'seg': 0}), ('shared3', {'kind': 'quality', 'n': 1}), ('chain4', {'kind': 'silence', 'n': 2}),
            ('ring3-restore', {'kind': 'restore', 'seg': 2}), ('chain3-p2', {'kind': 'silence', 'n': 3}),
            ('ring4', {'kind': 'quality', 'n': 4}), ('link-lowclass', {'kind': 'silence', 'n': 1}), ('parallel', {'kind': 'cut', 'seg': 1})]
    runs = 0
    for i, (name, fault) in enumerate(free if not q else free[:6]):
        for sd in range(1 if q else 6):
            w = net_world(name, timeout=3, quiet_rounds=16, fault_at_s=70, fault=fault, max_delay_ms=[1, 50, 400][(i + sd) % 3])
            wp = os.path.join(td, 'free-%s-%d.json' % (name, sd))
            json.dump(w, open(wp, 'w'))
            tr = os.path.join(td, 'free-%s-%d.ndjson' % (name, sd))
            r = subprocess.run([binpath('netsim'), '--free', '--cfg', wp, '--seed', str(seed * 100 + sd), '--trace', tr, '--horizon', '160'], cwd=ROOT, stdout=subprocess.PIPE, text=True, timeout=600)
            if r.returncode != 0:
                raise ToolError('netsim --free failed on %s' % name)
            ok, msg, stats = validate_trace('TraceNet.tla', tr, 'C01-free-%s-%d' % (name, sd))
            runs += 1
            acc.states += stats['distinct']; acc.transitions += stats['generated']
            if not ok:
                keep = os.path.join(outdir('replay', 'C01-free'), 'rejected-%s-%d.ndjson' % (name, sd))
                shutil.copy(tr, keep)
                v.add({'kind': 'trace', 'key': 'C01/free', 'detail': 'free-running network %s (seed %d): %s' % (name, sd, msg), 'replay': keep})
    acc.edges += runs
    acc.suites.append({'suite': 'C01-free', 'driver': 'harness/src/bin/netsim.rs --free', 'runs_validated_by_TraceNet': runs})
    return finish('C01', tier, seed, 'model_checking', v, acc, t0,
                  EDGE_RULE + '; here an edge is one scheduling decision of the network model (a master port announces, one Announce is delivered, a node runs BMCA, a receipt timeout '
                  'fires, a round ends, one fault) executed on N real instances wired in memory - the Announce octets a real port emits are what the real receivers parse',
                  COMMON_ASSUME + ['an Announce is delivered within the round it was sent in (delay below one announce interval); receipt timeouts fire between T and 2T rounds (T = 2)',
                                   'two-node networks are explored completely (all rankings incl. clockClass 6 and slave-only, one fault); three- and four-node networks by TLC simulation and '
                                   'by free-running simulations of the real code validated against TraceNet.tla', 'Sync/Delay traffic is not part of the network model (irrelevant to roles)'],
                  extra_cov={'K_rounds': KS, 'K_is_tight': tight}, exhaustive=False)


CHECKS = {
    'C01': check_C01,
    'C02': check_C02,
    'C13': check_C13,
    'C19': check_C19,
    'C20': check_C20,
    'C04': check_C04,
    'C16': check_C16,
    'C18': check_C18,
    'C17': check_C17,
    'C03': check_C03,
    'C15': check_C15,
    'C12': check_C12,
    'C07': check_C07,
    'C10': check_C10,
    'C11': check_C11,
    'C14': check_C14,
    'C09': check_C09,
    'C06': check_C06,
    'C05': check_C05,
    'C08': check_C08,
}


def setup():
    build('dev')
    build('release')
    print('setup: harness built (dev %.1fs, release %.1fs)' % (vlib._built.get('dev', 0), vlib._built.get('release', 0)))
    return 0
