#!/usr/bin/env python3
"""Regenerates the seeded-change table of DESIGN.md (between the SEEDED-TABLE markers) from seeded/*/meta.json."""
import json, os, glob, re
ROOT = os.path.dirname(os.path.dirname(os.path.abspath(__file__)))


def first_needs(d):
    p = os.path.join(d, 'needs.txt')
    if os.path.exists(p):
        return ' '.join(open(p).read().split())
    return ''


def main():
    rows = []
    for mp in sorted(glob.glob(os.path.join(ROOT, 'seeded', '*', 'meta.json'))):
        m = json.load(open(mp))
        d = os.path.dirname(mp)
        checks = m.get('checks', {})
        ran = ', '.join('%s:%s' % (c, {0: 'held', 1: 'VIOLATION', 2: 'tool-error'}.get(r['exit'], r['exit'])) for c, r in checks.items())
        rows.append('| `%s` | %s | %s | %s | %s |' % (m['name'], m['property'], 'yes' if m.get('confirmed') else 'NO', ran or '-', ', '.join(m.get('caught_by', [])) or '**none**'))
    caught = sum(1 for r in rows if '**none**' not in r)
    table = ['| seeded change | property | confirmed | quick checks run (result) | caught by |', '|---|---|---|---|---|'] + rows
    table.append('')
    table.append('%d of %d seeded changes are caught by at least one of the checks run against them.' % (caught, len(rows)))
    p = os.path.join(ROOT, 'DESIGN.md')
    s = open(p).read()
    a = s.index('<!-- SEEDED-TABLE-BEGIN -->') + len('<!-- SEEDED-TABLE-BEGIN -->')
    b = s.index('<!-- SEEDED-TABLE-END -->')
    s = s[:a] + '\n' + '\n'.join(table) + '\n' + s[b:]
    open(p, 'w').write(s)
    print('%d rows, %d caught' % (len(rows), caught))


if __name__ == '__main__':
    main()
