"""Engine of bin/check: builds the harness against /repo's working tree, runs
TLC on the specifications, pipes specification behaviours into the real code
(Binding A), validates recorded executions against trace specifications
(Binding B), applies the verdict rule and writes evidence files."""
import json, os, re, subprocess, sys, time, shutil, glob, hashlib

ROOT = os.path.dirname(os.path.dirname(os.path.abspath(__file__)))
OUT = os.path.join(ROOT, 'out')
HARNESS = os.path.join(ROOT, 'harness')
SPECS = os.path.join(ROOT, 'specs')
EVID = os.path.join(ROOT, 'evidence')
JAVA_CP = '/opt/veriftools/tla/tla2tools.jar:/opt/veriftools/tla/CommunityModules-deps.jar'
REPO = '/repo'


class ToolError(Exception):
    pass


def sh(cmd, **kw):
    return subprocess.run(cmd, shell=isinstance(cmd, str), **kw)


def env_offline():
    e = dict(os.environ)
    e.update({'CARGO_NET_OFFLINE': 'true', 'RUST_BACKTRACE': '0'})
    # the harness's own .cargo/config.toml decides where things are built and with which cfg flags;
    # an inherited override would make the check run a stale binary
    for k in ('CARGO_TARGET_DIR', 'CARGO_BUILD_TARGET_DIR', 'RUSTFLAGS', 'CARGO_ENCODED_RUSTFLAGS', 'CARGO_BUILD_RUSTFLAGS', 'CARGO_BUILD_TARGET'):
        e.pop(k, None)
    return e


_built = {}


def build(profile='dev'):
    """cargo build of the harness (path dependencies on /repo -> rebuilt when /repo changed)"""
    if _built.get(profile):
        return
    lock = os.path.join(HARNESS, 'Cargo.lock')
    if not os.path.exists(lock):
        shutil.copy(os.path.join(REPO, 'Cargo.lock'), lock)
    cmd = ['cargo', 'build', '--offline', '--quiet']
    if profile == 'release':
        cmd.append('--release')
    t0 = time.time()
    r = subprocess.run(cmd, cwd=HARNESS, env=env_offline(), stdout=subprocess.PIPE, stderr=subprocess.STDOUT, text=True)
    if r.returncode != 0:
        tail = '\n'.join(r.stdout.splitlines()[-40:])
        raise ToolError('cargo build (%s) failed:\n%s' % (profile, tail))
    _built[profile] = time.time() - t0


def binpath(name, profile='dev'):
    return os.path.join(HARNESS, 'target', 'debug' if profile == 'dev' else 'release', name)


def outdir(*parts):
    d = os.path.join(OUT, *parts)
    os.makedirs(d, exist_ok=True)
    return d


def clean_dir(d):
    shutil.rmtree(d, ignore_errors=True)
    os.makedirs(d, exist_ok=True)


# --------------------------------------------------------------------------- TLC

def write_cfg(path, spec='Spec', constants=None, invariants=(), properties=(), view=None, constraint=None,
              action_constraint=None, postcondition=None, deadlock=False, init_next=None):
    lines = []
    if init_next:
        lines += ['INIT %s' % init_next[0], 'NEXT %s' % init_next[1]]
    else:
        lines.append('SPECIFICATION %s' % spec)
    if constants:
        lines.append('CONSTANTS')
        for k, v in constants.items():
            if isinstance(v, tuple) and v[0] == '<-':
                lines.append('  %s <- %s' % (k, v[1]))
            elif isinstance(v, bool):
                lines.append('  %s = %s' % (k, 'TRUE' if v else 'FALSE'))
            else:
                lines.append('  %s = %s' % (k, v))
    for i in invariants:
        lines.append('INVARIANT %s' % i)
    for p in properties:
        lines.append('PROPERTY %s' % p)
    if view:
        lines.append('VIEW %s' % view)
    if constraint:
        lines.append('CONSTRAINT %s' % constraint)
    if action_constraint:
        lines.append('ACTION_CONSTRAINT %s' % action_constraint)
    if postcondition:
        lines.append('POSTCONDITION %s' % postcondition)
    lines.append('CHECK_DEADLOCK %s' % ('TRUE' if deadlock else 'FALSE'))
    with open(path, 'w') as f:
        f.write('\n'.join(lines) + '\n')


def tlc_cmd(module, cfg, metadir, workers=8, extra=(), xmx='12g', jvm=()):
    # TLC unpacks its standard modules into java.io.tmpdir: keep that inside the (removed afterwards) metadir, nothing of ours lives in /tmp
    return ['java', '-XX:+UseParallelGC', '-Xmx' + xmx, '-Djava.io.tmpdir=' + metadir] + list(jvm) + ['-cp', JAVA_CP, 'tlc2.TLC', '-workers', str(workers),
            '-metadir', metadir, '-cleanup', '-noGenerateSpecTE', '-config', cfg] + list(extra) + [module]


TLC_STATS = re.compile(r'(\d+) states generated, (\d+) distinct states found, (\d+) states left on queue')


def parse_tlc_log(text):
    """Extract statistics, invariant/property violations and errors from TLC's output."""
    res = {'generated': 0, 'distinct': 0, 'queue': 0, 'depth': None, 'violated': [], 'errors': [], 'finished': False, 'coverage': {}}
    for m in TLC_STATS.finditer(text):
        res['generated'], res['distinct'], res['queue'] = int(m.group(1)), int(m.group(2)), int(m.group(3))
    m = re.search(r'The depth of the complete state graph search is (\d+)', text)
    if m:
        res['depth'] = int(m.group(1))
    for m in re.finditer(r'Error: Invariant (\S+) is violated', text):
        res['violated'].append(m.group(1))
    for m in re.finditer(r'Error: Action property (\S+) is violated', text):
        res['violated'].append(m.group(1))
    if 'Temporal properties were violated' in text:
        res['violated'].append('temporal')
    if re.search(r'Error: Deadlock reached', text):
        res['violated'].append('deadlock')
    for m in re.finditer(r'^Error: (?!Invariant|Action property|Temporal|Deadlock|The behavior|The following)(.*)$', text, re.M):
        res['errors'].append(m.group(1)[:300])
    if 'Model checking completed' in text or 'Finished in' in text:
        res['finished'] = True
    # -coverage: "<Action line .. of module X>: distinct:generated"
    for m in re.finditer(r'^<(\w+) line \d+, col \d+ to line \d+, col \d+ of module (\w+)>: (\d+):(\d+)', text, re.M):
        res['coverage'][m.group(1)] = [int(m.group(3)), int(m.group(4))]
    return res


def extract_trace(text):
    """The counterexample TLC printed (states as text), for the replay file of a design-level violation."""
    i = text.find('Error: The behavior up to this point is')
    if i < 0:
        i = text.find('Error: The following behavior')
    return text[i:i + 20000] if i >= 0 else ''


def run_tlc(module, cfg, name, workers=8, timeout=600, extra=(), cwd=SPECS, env=None, jvm=(), xmx='12g'):
    """Plain TLC run (no edge emission). Returns (parsed, text)."""
    meta = outdir('tlc', name)
    clean_dir(meta)
    cmd = tlc_cmd(module, cfg, meta, workers, extra, xmx=xmx, jvm=jvm)
    e = dict(os.environ)
    if env:
        e.update(env)
    try:
        r = subprocess.run(cmd, cwd=cwd, stdout=subprocess.PIPE, stderr=subprocess.STDOUT, text=True, timeout=timeout, env=e)
    except subprocess.TimeoutExpired as ex:
        shutil.rmtree(meta, ignore_errors=True)
        raise ToolError('TLC timed out after %ss on %s' % (timeout, name))
    shutil.rmtree(meta, ignore_errors=True)
    with open(os.path.join(outdir('logs'), name + '.tlc.log'), 'w') as f:
        f.write(r.stdout)
    return parse_tlc_log(r.stdout), r.stdout


def run_edges(module, cfg, world, name, seed, profile='dev', workers=8, timeout=900, extra=(), max_keep=5):
    """TLC with edge emission piped into the real code. Returns (tlc stats, replay report)."""
    meta = outdir('tlc', name)
    clean_dir(meta)
    rdir = outdir('replay', name)
    clean_dir(rdir)
    tlclog = os.path.join(outdir('logs'), name + '.tlc.log')
    report = os.path.join(outdir('logs'), name + '.report.json')
    if os.path.exists(report):
        os.remove(report)
    tlc = subprocess.Popen(tlc_cmd(module, cfg, meta, workers, extra), cwd=SPECS, stdout=subprocess.PIPE, stderr=subprocess.STDOUT)
    rp = subprocess.Popen([binpath('replay', profile), '--cfg', world, '--seed', str(seed), '--report', report, '--replay-dir', rdir,
                           '--tlc-log', tlclog, '--tag', name, '--max-keep', str(max_keep)], stdin=tlc.stdout, cwd=ROOT)
    tlc.stdout.close()
    t0 = time.time()
    try:
        rp.wait(timeout=timeout)
        tlc.wait(timeout=30)
    except subprocess.TimeoutExpired:
        tlc.kill()
        rp.kill()
        shutil.rmtree(meta, ignore_errors=True)
        raise ToolError('edge suite %s timed out after %ss' % (name, timeout))
    shutil.rmtree(meta, ignore_errors=True)
    if rp.returncode != 0 or not os.path.exists(report):
        raise ToolError('replay of suite %s failed (exit %s)' % (name, rp.returncode))
    text = open(tlclog).read()
    stats = parse_tlc_log(text)
    if stats['errors'] and not stats['violated']:
        raise ToolError('TLC error in suite %s: %s' % (name, stats['errors'][:2]))
    rep = json.load(open(report))
    rep['wall_s'] = time.time() - t0
    stats['text_trace'] = extract_trace(text) if stats['violated'] else ''
    return stats, rep



def pipe_tlc(module, cfg, name, consumer, workers=8, timeout=900, extra=()):
    """TLC with edge emission piped into a consumer binary that prints one JSON report on stdout and echoes
    non-edge lines (TLC's own output) on stderr. Returns (tlc stats, consumer report)."""
    meta = outdir('tlc', name)
    clean_dir(meta)
    tlclog = os.path.join(outdir('logs'), name + '.tlc.log')
    tlc = subprocess.Popen(tlc_cmd(module, cfg, meta, workers, extra), cwd=SPECS, stdout=subprocess.PIPE, stderr=subprocess.STDOUT)
    with open(tlclog, 'w') as lf:
        cp = subprocess.Popen(consumer, stdin=tlc.stdout, stdout=subprocess.PIPE, stderr=lf, cwd=ROOT, text=True)
        tlc.stdout.close()
        try:
            out, _ = cp.communicate(timeout=timeout)
            tlc.wait(timeout=30)
        except subprocess.TimeoutExpired:
            tlc.kill(); cp.kill()
            shutil.rmtree(meta, ignore_errors=True)
            raise ToolError('suite %s timed out after %ss' % (name, timeout))
    shutil.rmtree(meta, ignore_errors=True)
    if cp.returncode != 0:
        raise ToolError('consumer of suite %s failed (exit %s): %s' % (name, cp.returncode, out[-500:]))
    text = open(tlclog).read()
    stats = parse_tlc_log(text)
    if stats['errors'] and not stats['violated']:
        raise ToolError('TLC error in suite %s: %s' % (name, stats['errors'][:2]))
    stats['text_trace'] = extract_trace(text) if stats['violated'] else ''
    return stats, json.loads(out)

# --------------------------------------------------------------------------- known findings / verdict

def load_findings():
    p = os.path.join(ROOT, 'known_findings.json')
    if not os.path.exists(p):
        return []
    return json.load(open(p)).get('findings', [])


def finding_matches(f, prop, item):
    """item: {'kind': 'mismatch'|'predicate'|'tlc'|..., 'key':..., 'detail':..., 'last':...}"""
    if f.get('status', 'open') != 'open' or f['property'] != prop:
        return False
    sig = f.get('signature', {})
    for k, pat in sig.items():
        if k == 'last':
            last = item.get('last') or {}
            for lk, lv in pat.items():
                if last.get(lk) != lv:
                    return False
        else:
            if not re.search(pat, str(item.get(k, ''))):
                return False
    return True


class Verdict:
    def __init__(self, prop):
        self.prop = prop
        self.violations = []   # (description, replay path)
        self.known = {}        # finding id -> count
        self.notes = []
        self.findings = load_findings()

    def add(self, item):
        """item has kind/key/detail/last/replay; routed to a known finding or to a violation"""
        for f in self.findings:
            if finding_matches(f, self.prop, item):
                self.known[f['id']] = self.known.get(f['id'], 0) + item.get('count', 1)
                return
        self.violations.append(item)

    def finish(self):
        for f in self.findings:
            if f['id'] in self.known:
                print('KNOWN-FINDING: property=%s %s (%s; %d occurrences in this run)' % (self.prop, f['id'], f['what'], self.known[f['id']]))
        seen = set()
        per_key = {}
        printed = 0
        for v in self.violations:
            rp = v.get('replay', '')
            key = (v.get('key'), rp)
            if key in seen:
                continue
            seen.add(key)
            # at most three replay files per departing field are listed (all are counted in the evidence)
            per_key[v.get('key')] = per_key.get(v.get('key'), 0) + 1
            if per_key[v.get('key')] > 3 or printed >= 40:
                continue
            printed += 1
            print('VIOLATION property=%s replay=%s   # %s: %s' % (self.prop, rp, v.get('key', ''), str(v.get('detail', ''))[:300]))
        if len(seen) > printed:
            print('(%d further violations of %s not listed; see evidence/%s.json and out/replay/)' % (len(seen) - printed, self.prop, self.prop))
        return 1 if self.violations else 0


def owned(key, owns):
    for o in owns:
        if key == o or key.startswith(o + '.') or (o.endswith('*') and key.startswith(o[:-1])):
            return True
    return False


def judge_edges(verdict, rep, owns, preds, suite_name):
    """Apply the verdict rule (DESIGN 2.6) to a replay report."""
    foreign = {}
    for key, items in rep.get('kept', {}).items():
        kind, _, name = key.partition(':')
        total = (rep['mismatch_by_field'].get(name, 0) if kind == 'field' else rep['predicate_violations'].get(name, 0))
        if kind == 'field':
            if owned(name, owns):
                for it in items:
                    verdict.add({'kind': 'mismatch', 'key': name, 'detail': it['detail'], 'last': it.get('last'), 'replay': it['replay'], 'suite': suite_name, 'count': 1})
            else:
                foreign[name] = total
        else:
            if name.split('/')[0] in preds:
                for it in items:
                    verdict.add({'kind': 'predicate', 'key': name, 'detail': it['detail'], 'last': it.get('last'), 'replay': it['replay'], 'suite': suite_name, 'count': 1})
            else:
                foreign['pred:' + name] = total
    if foreign:
        verdict.notes.append('suite %s: departures in fields not owned by %s (reported by their owners): %s' % (suite_name, verdict.prop, foreign))
    return foreign


def write_tlc_counterexample(prop, suite, stats):
    d = outdir('replay', suite)
    p = os.path.join(d, 'tlc-counterexample-%s.txt' % '-'.join(stats['violated']))
    with open(p, 'w') as f:
        f.write('TLC counterexample for %s in suite %s (violated: %s)\n\n' % (prop, suite, stats['violated']))
        f.write(stats.get('text_trace', ''))
    return p


# --------------------------------------------------------------------------- evidence

def write_evidence(prop, tier, seed, level, coverage, assumptions, wall, violations):
    os.makedirs(EVID, exist_ok=True)
    ev = {'property_id': prop, 'tier': tier, 'seed': int(seed), 'level': level, 'coverage': coverage,
          'assumptions': assumptions, 'wall_s': round(wall, 2), 'violations': int(violations)}
    with open(os.path.join(EVID, prop + '.json'), 'w') as f:
        json.dump(ev, f, indent=1, sort_keys=False)
        f.write('\n')


# --------------------------------------------------------------------------- main

def main(argv):
    import props
    if not argv:
        print(__doc__)
        return 2
    cmd = argv[0]
    tier = os.environ.get('VERIF_TIER', 'quick')
    seed = int(os.environ.get('VERIF_SEED', '1') or 1)
    i = 1
    rest = []
    while i < len(argv):
        if argv[i] == '--tier':
            tier = argv[i + 1]; i += 2
        elif argv[i] == '--seed':
            seed = int(argv[i + 1]); i += 2
        else:
            rest.append(argv[i]); i += 1
    try:
        os.makedirs(OUT, exist_ok=True)
        if cmd == 'setup':
            return props.setup()
        if cmd == 'replay':
            build('dev')
            kind = None
            try:
                kind = json.load(open(rest[0])).get('kind')
            except Exception:
                pass
            if kind == 'tworun':
                r = subprocess.run([binpath('tworun'), '--one', rest[0]], cwd=ROOT)
            elif kind == 'overlay':
                r = subprocess.run([binpath('overlay'), '--one', rest[0]], cwd=ROOT)
            elif kind == 'insttrace':
                return props.replay_insttrace(rest[0])
            elif kind == 'netsim':
                # one scheduling history of the network model: executed again on fresh real instances and compared with the model's projection
                keep = json.load(open(rest[0]))
                d = outdir('replay', 'one-netsim'); clean_dir(d)
                cfgp = os.path.join(d, 'cfg.json')
                json.dump(keep['cfg'], open(cfgp, 'w'))
                line = '<<"E", %s>>\n' % json.dumps(json.dumps({'hist': keep['hist'], 'exp': keep['exp']}))
                r = subprocess.run([binpath('netsim'), '--replay', '--cfg', cfgp, '--replay-dir', d], input=line, stdout=subprocess.PIPE, text=True, cwd=ROOT)
                rep = json.loads(r.stdout) if r.stdout.strip() else {}
                print(json.dumps({'edges': rep.get('edges'), 'mismatch_by_field': rep.get('mismatch_by_field'), 'violations': [v['detail'] for v in rep.get('violations', [])]}))
                return 1 if rep.get('violations') else 0
            elif kind in ('mismatch', 'predicate', None):
                r = subprocess.run([binpath('replay'), '--one', rest[0]], cwd=ROOT)
            else:
                print(open(rest[0]).read()[:5000])
                return 1
            return r.returncode
        if cmd in props.CHECKS:
            os.environ['VERIF_TIER_RUNNING'] = tier     # suites size their time limits by the tier
            t0 = time.time()
            rc = props.CHECKS[cmd](tier, seed)
            print('check %s tier=%s seed=%d finished in %.1fs with exit %d' % (cmd, tier, seed, time.time() - t0, rc))
            return rc
        print('unknown command', cmd)
        return 2
    except ToolError as e:
        print('TOOL-ERROR: %s' % e)
        return 2
    except Exception as e:      # a bug in the machinery is a tool error, never a verdict
        import traceback
        traceback.print_exc()
        print('TOOL-ERROR: unexpected %s: %s' % (type(e).__name__, e))
        return 2
