#!/usr/bin/env python3
"""Regenerates MANIFEST.json from the table below (keeps it valid at all times)."""
import json, os, sys
ROOT = os.path.dirname(os.path.dirname(os.path.abspath(__file__)))
sys.path.insert(0, os.path.join(ROOT, 'lib'))
import manifest_table as T

def main():
    ids = ['C%02d' % i for i in range(1, 21)]
    checks = []
    na = []
    for i in ids:
        if i in T.CLAIMED:
            c = T.CLAIMED[i]
            checks.append({
                'property_id': i,
                'quick_cmd': 'bin/check %s --tier quick' % i,
                'thorough_cmd': 'bin/check %s --tier thorough' % i,
                'evidence_file': 'evidence/%s.json' % i,
                'replay_cmd_template': 'bin/check replay {path}',
                'engine': c['engine'],
                'level_claimed': {'category': c['level'], 'text': c['text'], 'design_ref': c['design_ref']},
                'level_note': c['note'],
                'technique': c['technique'],
            })
        else:
            na.append({'property_id': i, 'reason': T.NOT_CLAIMED.get(i, 'check not built yet')})
    m = {
        'version': 1,
        'setup_cmd': 'bin/check setup',
        'hooks': {
            'guard': 'statime_verif',
            'enable': 'RUSTFLAGS --cfg statime_verif (set in /verif/harness/.cargo/config.toml; the harness depends on /repo/statime and /repo/statime-linux by path)',
            'baseline_off_cmd': 'cd /repo && cargo test --workspace --no-fail-fast --offline',
            'source_commits': T.HOOK_COMMITS,
            'add_only': True,
        },
        'engines': T.ENGINES,
        'checks': checks,
        'notes': T.NOTES,
        'not_applicable': na,
    }
    with open(os.path.join(ROOT, 'MANIFEST.json'), 'w') as f:
        json.dump(m, f, indent=1)
        f.write('\n')

if __name__ == '__main__':
    main()
