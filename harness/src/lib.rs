//! Conformance harness binding the TLA+ specifications in /verif/specs to the
//! real statime code in /repo.
pub mod collab;
pub mod wire;
pub mod world;

/// silence the default panic hook (panics of the code under test are data)
pub fn quiet_panics() {
    std::panic::set_hook(Box::new(|_| {}));
}

struct StderrLog;
impl log::Log for StderrLog {
    fn enabled(&self, _: &log::Metadata) -> bool { true }
    fn log(&self, r: &log::Record) { eprintln!("[{}] {}", r.level(), r.args()); }
    fn flush(&self) {}
}
/// with VH_LOG set, statime's own log output goes to stderr (debugging aid for replay files)
pub fn maybe_log() {
    if std::env::var("VH_LOG").is_ok() {
        let _ = log::set_logger(&StderrLog);
        log::set_max_level(log::LevelFilter::Debug);
    }
}
