//! Conformance harness binding the TLA+ specifications in /verif/specs to the
//! real statime code in /repo.
pub mod collab;
pub mod wire;
pub mod world;

/// silence the default panic hook (panics of the code under test are data)
pub fn quiet_panics() {
    std::panic::set_hook(Box::new(|_| {}));
}
