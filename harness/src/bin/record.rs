//! Binding B: long seeded random histories of host calls on a real PtpInstance
//! (two or three ports, several foreign masters, own-identity frames, Sync /
//! Delay / peer-delay traffic, run-time settings, frames of other domains), one
//! ndjson line per public call at its return: the abstract event and the
//! projected post-state. specs/TraceInstance.tla accepts the trace iff every
//! step is the specification's step.
use std::io::Write;

use serde_json::{json, Value};
use vh::collab::RecMutex;
use vh::world::{splitmix, Cfg, World};

struct Rnd(u64);
impl Rnd {
    fn next(&mut self) -> u64 { self.0 = splitmix(self.0); self.0 }
    fn below(&mut self, n: u64) -> u64 { self.next() % n }
}
fn ch<T: Copy>(r: &mut Rnd, xs: &[T]) -> T { xs[r.below(xs.len() as u64) as usize] }

/// the source of a Sync / Follow_Up / Delay_Resp: mostly the parent, sometimes another clock, sometimes another port of the parent's clock
fn other_src(r: &mut Rnd, parent: &Value) -> Value {
    match r.below(8) {
        0 => json!([9, 1]),
        1 => json!([parent[0], parent[1].as_u64().unwrap_or(0) + 1]),
        _ => parent.clone(),
    }
}

fn variant_cfg(v: &str, seed: u64) -> Value {
    match v {
        "A" => json!({"own": {"id": 5}, "ports": [{"p2p": false, "asym": "asym"}, {"p2p": false, "asym": "asym"}], "seed": seed}),
        // boundary clock with path trace and the real TlvForwarder between its two ports
        "F" => json!({"own": {"id": 5, "ptrace": true}, "fwd": true, "ports": [{"p2p": false, "asym": "asym"}, {"p2p": false, "asym": "asym"}], "seed": seed}),
        // as A, the own priority1 and priority2 differ
        "P" => json!({"own": {"id": 5, "p2": 120}, "ports": [{"p2p": false, "asym": "asym"}, {"p2p": false, "asym": "asym"}], "seed": seed}),
        // slave-only from creation (the run-time setting is in every variant's alphabet; here the instance starts that way)
        "S" => json!({"own": {"id": 5, "so": true}, "ports": [{"p2p": false, "asym": "asym"}, {"p2p": false, "asym": "asym"}], "seed": seed}),
        // port 2 announces every two seconds (its foreign masters age half as fast as port 1's), syncs twice a second, asks for the delay every four seconds
        "K" => json!({"own": {"id": 5}, "ports": [{"p2p": false, "asym": "asym"}, {"p2p": false, "asym": "asym", "log_ann": 1, "log_sync": -1, "log_dreq": 2}], "seed": seed}),
        "M" => json!({"own": {"id": 5}, "ports": [{"p2p": false, "asym": "asym"}, {"p2p": false, "asym": "asym"}], "seed": seed}),
        "B" => json!({"own": {"id": 5, "ptrace": true}, "ports": [{"p2p": false, "asym": "asym"}, {"p2p": false, "mo": true, "asym": "asym"}], "seed": seed}),
        _ => json!({"own": {"id": 5}, "ports": [{"p2p": false, "aml": [2, 9], "asym": "asym"}, {"p2p": true, "asym": "asym"}, {"p2p": false, "mo": true, "asym": "asym"}], "seed": seed}),
    }
}

const GMS: [[u64; 6]; 5] = [[127, 248, 254, 65535, 128, 2], [128, 248, 254, 65535, 128, 9], [120, 6, 33, 100, 127, 1], [126, 248, 254, 65535, 128, 3], [128, 248, 254, 65535, 128, 5]];

fn tp(r: &mut Rnd) -> Value {
    match r.below(3) {
        0 => json!({"utc": 37, "leap": 0, "tt": true, "ft": true, "ptp": true, "src": 32}),
        1 => json!({"utc": 99999, "leap": 61, "tt": false, "ft": true, "ptp": true, "src": 16}),
        _ => json!({"utc": -5, "leap": 59, "tt": true, "ft": false, "ptp": false, "src": 80}),
    }
}

fn abs_out(o: &Value) -> Value {
    Value::Array(o.as_array().map(|a| a.iter().map(|x| match x["a"].as_str().unwrap() {
        "T" => json!({"a": "T", "k": x["k"], "d": x["d"]}),
        "F" => json!({"a": "F", "ty": x["tlv"]["ty"], "len": x["tlv"]["len"]}),
        _ => {
            // a frame: type, sequence id, and the discrete content (what an Announce advertises, whom a response answers)
            let mut o = json!({"a": x["a"], "t": x["t"], "seq": x["seq"]});
            if x["t"] == "Announce" {
                let mut tpv = x["tp"].clone();
                if tpv["utc"].is_null() { tpv["utc"] = json!(99999); }
                tpv.as_object_mut().unwrap().remove("utcraw");
                o["gm"] = x["gm"].clone(); o["steps"] = x["steps"].clone(); o["tp"] = tpv; o["tlvs"] = x["tlvs"].clone();
            }
            if let Some(r) = x.get("req") { o["req"] = r.clone(); }
            o
        }
    }).collect()).unwrap_or_default())
}

fn obs(w: &World<RecMutex>, res: &Value) -> Value {
    let pr = w.project(res);
    let n = w.ports.len();
    let g = &pr["gm"];
    let mut tpv = pr["tp"].clone();
    if tpv["utc"].is_null() { tpv["utc"] = json!(99999); }
    let snap = &pr["snap"];
    let mut o = json!({
        "pst": pr["pst"], "ppi": pr["ppi"], "gm": [g["p1"], g["class"], g["acc"], g["var"], g["p2"], g["id"]], "steps": pr["steps"], "tp": tpv, "path": pr["path"],
        "so": pr["dds"]["so"],
        "mpd": (0..n).map(|i| snap[i]["mpd"].as_i64().map(|m| m / 1000).unwrap_or(-1)).collect::<Vec<_>>(),
        "nseq": (0..n).map(|i| snap[i]["nseq"].clone()).collect::<Vec<_>>(),
        "fml": (0..n).map(|i| Value::Array(snap[i]["fml"].as_array().unwrap().iter().map(|m| json!({"id": m["id"],
                  "msgs": m["msgs"].as_array().unwrap().iter().map(|x| json!({"seq": x["seq"], "age": x["age"].as_i64().unwrap() / 1000, "steps": x["steps"]})).collect::<Vec<_>>()})).collect())).collect::<Vec<_>>(),
        // the master each slave port listens to (the port's own record, not the instance's parent data set)
        "rm": (0..n).map(|i| if pr["pst"][i] == "S" { snap[i]["rm"].clone() } else { json!([0, 0]) }).collect::<Vec<_>>(),
        "rng": pr["rng"],
        "clk": pr["clk"].as_array().unwrap().iter().map(|c| json!([c[0], c[1]])).collect::<Vec<_>>(),
        // calls on the port's filter: which port, which call, and which of offset / delay / peer delay a measurement carries
        "flt": pr["flt"].as_array().unwrap().iter().map(|c| if c["k"] == "meas" { json!({"p": c["p"], "k": "meas", "off": !c["off"].is_null(), "dly": !c["dly"].is_null(), "pdly": !c["pdly"].is_null()}) }
                  else { json!({"p": c["p"], "k": c["k"]}) }).collect::<Vec<_>>(),
    });
    if let Some(p) = res.get("pend") { o["pend"] = Value::Array(p.as_array().unwrap().iter().map(abs_out).collect()); } else { o["out"] = abs_out(&res["out"]); }
    o
}

fn main() {
    vh::quiet_panics();
    let args: Vec<String> = std::env::args().collect();
    let mut seed = 1u64;
    let mut variant = "A".to_string();
    let mut events = 10000usize;
    let mut runlen = 400usize;
    let mut trace = String::new();
    let mut rerun = String::new();
    let mut replay_dir = String::new();
    let mut panic_keeps: Vec<Value> = Vec::new();
    let mut i = 1;
    while i < args.len() {
        match args[i].as_str() {
            "--seed" => { seed = args[i + 1].parse().unwrap(); i += 1; }
            "--variant" => { variant = args[i + 1].clone(); i += 1; }
            "--events" => { events = args[i + 1].parse().unwrap(); i += 1; }
            "--runlen" => { runlen = args[i + 1].parse().unwrap(); i += 1; }
            "--trace" => { trace = args[i + 1].clone(); i += 1; }
            "--rerun" => { rerun = args[i + 1].clone(); i += 1; }
            "--replay-dir" => { replay_dir = args[i + 1].clone(); i += 1; }
            _ => {}
        }
        i += 1;
    }
    let mut f = std::io::BufWriter::new(std::fs::File::create(&trace).unwrap());
    if !rerun.is_empty() {
        // replay of a kept run: the recorded events are executed again on a fresh real instance and logged afresh
        let keep: Value = serde_json::from_str(&std::fs::read_to_string(&rerun).unwrap()).unwrap();
        let mut w: World<RecMutex> = World::new(Cfg::from_json(&keep["cfg"]));
        w.start();
        writeln!(f, "{}", json!({"e": "reset", "variant": keep["variant"], "cfg": keep["cfg"]})).unwrap();
        let mut n = 0;
        for ev in keep["events"].as_array().unwrap() {
            let res = w.step(ev);
            if res.get("panic").is_some() { println!("{}", json!({"panic": res["panic"], "at": n})); break; }
            if res.get("skipped").is_some() { continue; }
            writeln!(f, "{}", json!({"e": "call", "ev": ev, "obs": obs(&w, &res)})).unwrap();
            n += 1;
        }
        f.flush().unwrap();
        println!("{}", json!({"events": n, "rerun": rerun}));
        return;
    }
    let mut r = Rnd(seed.wrapping_mul(0x2545F4914F6CDD1D) ^ variant.as_bytes()[0] as u64);
    let mut total = 0usize;
    let mut panics = 0u64;
    let mut kinds: std::collections::BTreeMap<String, u64> = Default::default();
    let mut run = 0u64;
    while total < events {
        run += 1;
        let cfgv = variant_cfg(&variant, seed + run);
        let mut w: World<RecMutex> = World::new(Cfg::from_json(&cfgv));
        w.start();
        writeln!(f, "{}", json!({"e": "reset", "variant": variant, "cfg": cfgv})).unwrap(); total += 1;
        let np = w.ports.len() as u64;
        let mut seqs: std::collections::BTreeMap<String, u64> = Default::default();
        let mut sync_n = 0u64;
        let mut run_events: Vec<Value> = Vec::new();
        for _ in 0..runlen {
            let mut p = 1 + r.below(np);
            // half of the time aim at the slave port, if there is one (otherwise exchanges rarely complete)
            if r.below(2) == 0 {
                let pst = w.project(&json!({}))["pst"].clone();
                if let Some(i) = pst.as_array().unwrap().iter().position(|x| x == "S") { p = i as u64 + 1; }
            }
            let snap = w.snapshot((p - 1) as usize);
            let did = snap["delay"]["id"].as_u64().unwrap_or(0);
            let sid = snap["sync"]["id"].as_u64().unwrap_or(sync_n);
            let pid = snap["pd"]["id"].as_u64().unwrap_or(0);
            let parent = w.project(&json!({}))["ppi"].clone();
            // on a slave port the exchange events are favoured, otherwise measurements rarely complete
            let slave_here = w.project(&json!({}))["pst"][(p - 1) as usize] == "S";
            let roll = if slave_here && r.below(10) < 6 { [21u64, 22, 25, 26, 27, 28, 29, 30, 40, 40, 41][r.below(11) as usize] } else { r.below(40) };
            let ev = match roll {
                40 => json!({"e": "t", "k": "dreq", "p": p}),
                41 => json!({"e": "t", "k": "filt", "p": p}),
                0..=9 => {
                    // variant M: many distinct masters on one port (the foreign master list holds at most eight)
                    let many = variant == "M";
                    let srcs = [json!([2, 1]), json!([9, 1]), json!([3, 2]), json!([5, 1]), json!([5, 3]), json!([11, 1])];
                    let gi = if many { r.below(14) as usize } else { r.below(6) as usize };
                    let mut src = if gi < 6 { srcs[gi].clone() } else { json!([6 + gi as u64, 1]) };
                    // now and then another port of the same foreign clock (a different master, same clock identity)
                    if gi <= 2 && r.below(6) == 0 { src = json!([src[0], src[1].as_u64().unwrap() + 1]); }
                    let gi = gi % 6;
                    let key = src.to_string();
                    // sequence ids start just below the two seams of the serial-number comparison for the first two masters
                    let cur = *seqs.entry(key.clone()).or_insert(if gi == 0 { 65533 } else if gi == 1 { 32765 } else { r.below(100) });
                    let seq = match r.below(10) { 0 => (cur + 65535) % 65536, 1 => (cur + 65534) % 65536, 2 => { seqs.insert(key, (cur + 2) % 65536); (cur + 1) % 65536 } _ => { seqs.insert(key, (cur + 1) % 65536); cur } };
                    let g = GMS[[0usize, 1, 2, 3, 4, 2][gi]];
                    let mut ev = json!({"e": "ann", "p": p, "src": src, "seq": seq, "g": g, "steps": ch(&mut r, &[0u64, 0, 1, 2, 254, 255]), "tp": tp(&mut r)});
                    if (variant == "B" || variant == "F") && r.below(3) == 0 { let paths = [vec![1u64, 2], vec![2], vec![1, 5, 2], vec![7, 8, 9, 2]]; ev["path"] = json!(paths[r.below(4) as usize].clone()); }
                    if r.below(4) == 0 || (variant == "F" && r.below(2) == 0) {
                        let mut tl = vec![json!({"ty": ch(&mut r, &[3u64, 9, 16384, 32768, 32767]), "len": 2 * r.below(4), "tag": r.below(4)})];
                        if variant == "F" && r.below(3) == 0 { tl.push(json!({"ty": ch(&mut r, &[9u64, 20000, 4]), "len": 2 * r.below(200), "tag": r.below(4)})); }
                        // the tag stands for the value's octets: an empty value has none
                        for t in tl.iter_mut() { if t["len"] == 0 { t["tag"] = json!(0); } }
                        ev["tlvs"] = Value::Array(tl);
                    }
                    match r.below(20) { 0 => { ev["dom"] = json!(3); } 1 => { ev["sdo"] = json!(256); } 2 => { ev["ver"] = json!(1); } _ => {} }
                    ev
                }
                10..=13 => json!({"e": "bmca"}),
                14..=20 => json!({"e": "t", "k": ch(&mut r, &["ann", "sync", "dreq", "rcpt", "filt", "dreq", "ann"]), "p": p}),
                21..=24 => { sync_n += 1; let src = other_src(&mut r, &parent);
                             json!({"e": "sync", "p": p, "src": src, "seq": if r.below(4) == 0 { sid } else { sync_n % 65536 }, "two": r.below(2) == 0, "rx": format!("t2_{}", sync_n), "c": format!("cs_{}", sync_n), "w1": format!("w1_{}", sync_n)}) }
                25..=26 => json!({"e": "fup", "p": p, "src": other_src(&mut r, &parent), "seq": if r.below(3) == 0 { sync_n % 65536 } else { sid }, "w1": format!("w1_{}", sync_n), "c": format!("cf_{}", sync_n)}),
                27..=28 => json!({"e": "dresp", "p": p, "src": other_src(&mut r, &parent), "seq": did, "req": [5, if r.below(6) == 0 { 1 + r.below(3) } else { p }], "w4": format!("w4_{}", sync_n), "c": format!("cr_{}", sync_n)}),
                29..=31 => {
                    let n = w.ctxs[(p - 1) as usize].len() as u64;
                    let free: Vec<u64> = (1..=n).filter(|c| w.ctxs[(p - 1) as usize][(*c - 1) as usize].is_some()).collect();
                    if free.is_empty() { json!({"e": "t", "k": "sync", "p": p}) } else { let c = free[r.below(free.len() as u64) as usize]; json!({"e": "ts", "p": p, "c": c, "t": format!("tx_{}", r.below(30))}) }
                }
                32 => json!({"e": "dreq", "p": p, "src": [7, 1], "seq": r.below(65536), "c": "cq_1", "rx": "tr_1"}),
                33 => json!({"e": "pdreq", "p": p, "src": [7, 1], "seq": r.below(65536), "c": "cp_1", "rx": "tp_1"}),
                34..=35 => json!({"e": "pdresp", "p": p, "src": [7 + r.below(2), 1], "seq": pid, "req": [5, p], "two": r.below(2) == 0, "w2": "w2_1", "c": "cr_9", "rx": "t4_1"}),
                36 => json!({"e": "pdfup", "p": p, "src": [7 + r.below(2), 1], "seq": pid, "req": [5, p], "w3": "w3_1", "c": "cf_9"}),
                37 => json!({"e": "so", "v": r.below(3) == 0}),
                38 => json!({"e": "q", "q": {"class": ch(&mut r, &[6u64, 187, 248]), "acc": 33, "var": 100}}),
                _ => json!({"e": "sig", "p": p, "src": [2, 1], "seq": 1}),
            };
            *kinds.entry(ev["e"].as_str().unwrap().to_string()).or_default() += 1;
            let res = w.step(&ev);
            if res.get("panic").is_some() {
                // a panic of the code under test is data: keep the run's events for replay
                panics += 1;
                if !replay_dir.is_empty() && panic_keeps.len() < 5 {
                    run_events.push(ev.clone());
                    let path = format!("{}/panic-{}-{}.json", replay_dir, variant, run);
                    std::fs::write(&path, json!({"kind": "insttrace", "variant": variant, "cfg": cfgv, "events": run_events, "fields": ["panic"], "panic": res["panic"]}).to_string()).unwrap();
                    panic_keeps.push(json!({"replay": path, "panic": res["panic"], "last": ev}));
                }
                break;
            }
            run_events.push(ev.clone());
            if res.get("skipped").is_some() { continue; }
            writeln!(f, "{}", json!({"e": "call", "ev": ev, "obs": obs(&w, &res)})).unwrap();
            total += 1;
        }
    }
    f.flush().unwrap();
    println!("{}", json!({"events": total, "runs": run, "panics": panics, "panic_keeps": panic_keeps, "events_by_kind": kinds}));
}
