//! Binding A: replay specification behaviours (edge stream printed by TLC) on
//! the real statime objects and compare the projection after the last event
//! of every edge with the specification's successor state.
//!
//! stdin : TLC output; lines `<<"E", "<json>">>` are edges `{hist, exp}`
//! args  : --cfg world.json  --seed N  --report report.json  --replay-dir DIR
//!         --tlc-log FILE (non-edge lines are copied there)  --max-keep N
//!         --one FILE (re-run one replay file and print the comparison)

use std::collections::BTreeMap;
use std::io::{BufRead, Write};

use serde_json::{json, Map, Value};
use vh::collab::{RecMutex, NESTED_MSG};
use vh::world::{subset_match, Cfg, World};

fn merge(base: &Value, over: &Value) -> Value {
    match (base, over) {
        (Value::Object(b), Value::Object(o)) => {
            let mut m = b.clone();
            for (k, v) in o {
                let nv = match m.get(k) {
                    Some(bv) => merge(bv, v),
                    None => v.clone(),
                };
                m.insert(k.clone(), nv);
            }
            Value::Object(m)
        }
        _ => over.clone(),
    }
}

pub struct Outcome {
    pub act: Value,
    pub pre: Value,
    pub mismatch: Option<String>,
    pub preds: Vec<(String, String)>, // (property, description)
}

/// Key of a mismatch, used for field ownership: `pst`, `snap.fml`, `out.T`,
/// `out.Announce.gm`, `out.len`, `pend`, `flt.meas`, ...
fn top_key(path: &str, exp: &Value) -> String {
    let p = path.trim_start_matches('.');
    let p = p.split(' ').next().unwrap_or(p);
    // split into segments, dropping indices
    let mut segs: Vec<String> = vec![];
    let mut idx: Vec<Option<usize>> = vec![];
    for raw in p.split('.') {
        let (name, i) = match raw.find('[') {
            Some(b) => (&raw[..b], raw[b + 1..].split(']').next().and_then(|x| x.parse::<usize>().ok())),
            None => (raw, None),
        };
        segs.push(name.to_string());
        idx.push(i);
    }
    if segs.is_empty() {
        return "?".into();
    }
    match segs[0].as_str() {
        "snap" => format!("snap.{}", segs.get(1).cloned().unwrap_or_default()),
        "out" => match idx[0] {
            None => "out.len".into(),
            Some(i) => {
                let a = &exp["out"][i];
                match a["a"].as_str() {
                    Some("T") => "out.T".into(),
                    Some("F") => "out.F".into(),
                    Some(_) => format!("out.{}.{}", a["t"].as_str().unwrap_or("?"), segs.get(1).cloned().unwrap_or_default()),
                    None => "out.len".into(),
                }
            }
        },
        "flt" => match idx[0] {
            None => "flt.len".into(),
            Some(i) => format!("flt.{}", exp["flt"][i]["k"].as_str().unwrap_or("?")),
        },
        other => other.to_string(),
    }
}

fn filtered(ev: &Value) -> bool {
    ev.get("ver").and_then(|x| x.as_u64()).map(|x| x != 2).unwrap_or(false)
        || ev.get("dom").and_then(|x| x.as_u64()).map(|x| x != 0).unwrap_or(false)
        || ev.get("sdo").and_then(|x| x.as_u64()).map(|x| x != 0).unwrap_or(false)
        || ev.get("bad").and_then(|x| x.as_bool()).unwrap_or(false)
        || ev.get("cut").is_some()
}

/// C06 as an observable predicate: a slave port's parent must have been heard at least twice, with distinct
/// sequence ids, within the last four completed announce intervals (BMCA epochs) plus the current one, never
/// with stepsRemoved >= 255 and never with the own clock identity.
fn c06_predicates(cfg: &Cfg, events: &[Value], act: &Value, v: &mut Vec<(String, String)>) {
    let pst: Vec<&str> = act["pst"].as_array().map(|a| a.iter().map(|x| x.as_str().unwrap_or("?")).collect()).unwrap_or_default();
    let epoch_now = events.iter().filter(|e| e["e"] == "bmca").count() as i64;
    for (i, s) in pst.iter().enumerate() {
        if *s != "S" {
            continue;
        }
        let ppi = &act["ppi"];
        if ppi[0].as_u64() == Some(cfg.own.id as u64) {
            v.push(("C06/own".into(), format!("port {} is slave of a port of its own instance", i + 1)));
            continue;
        }
        let mut epoch = 0i64;
        let mut seqs: Vec<u64> = vec![];
        let mut all = 0;
        let mut bad_steps = false;
        for e in events {
            if e["e"] == "bmca" {
                epoch += 1;
            }
            if e["e"] == "ann" && e["p"].as_u64() == Some(i as u64 + 1) && &e["src"] == ppi && !filtered(e) && epoch >= epoch_now - 4 {
                all += 1;
                let q = e["seq"].as_u64().unwrap_or(0);
                if !seqs.contains(&q) {
                    seqs.push(q);
                }
                if e["steps"].as_u64().unwrap_or(0) >= 255 {
                    bad_steps = true;
                }
            }
        }
        if all < 2 {
            v.push(("C06/single".into(), format!("port {} is slave of {} after {} Announce(s) of it within the window", i + 1, ppi, all)));
        } else if seqs.len() < 2 {
            v.push(("C06/dup".into(), format!("port {} is slave of {} on the strength of one Announce delivered {} times (duplicate sequenceId)", i + 1, ppi, all)));
        }
        if bad_steps && seqs.len() <= 2 {
            v.push(("C06/steps255".into(), format!("port {} is slave of {} which reports stepsRemoved >= 255", i + 1, ppi)));
        }
    }
}

/// Observable predicates: statements of the properties over π alone
fn predicates(cfg: &Cfg, events: &[Value], pre: &Value, act: &Value, so_from_start: bool) -> Vec<(String, String)> {
    let mut v = vec![];
    let ev = events.last().unwrap();
    c06_predicates(cfg, events, act, &mut v);
    let pst: Vec<&str> = act["pst"].as_array().map(|a| a.iter().map(|x| x.as_str().unwrap_or("?")).collect()).unwrap_or_default();
    let pre_pst: Vec<&str> = pre["pst"].as_array().map(|a| a.iter().map(|x| x.as_str().unwrap_or("?")).collect()).unwrap_or_default();
    // C08 at most one slave port; master-only never slave; slave-only never master
    if pst.iter().filter(|s| **s == "S").count() > 1 {
        v.push(("C08".into(), "more than one port in the slave state".into()));
    }
    for (i, s) in pst.iter().enumerate() {
        if *s == "S" && cfg.ports[i].mo {
            v.push(("C08".into(), format!("master-only port {} is slave", i + 1)));
        }
    }
    // slave-only: configured from the start and never switched off -> never a master port;
    // switched on at run time -> no master port once a BMCA run has completed
    if act["dds"]["so"].as_bool() == Some(true) && (ev["e"] == "bmca" || so_from_start) && pst.iter().any(|s| *s == "M") {
        v.push(("C08".into(), "slave-only instance has a port in the master state".into()));
    }
    if let Some(msg) = act.get("panic").and_then(|x| x.as_str()) {
        if msg.contains(NESTED_MSG) {
            v.push(("C17".into(), "nested acquisition of the instance state lock".into()));
        } else {
            v.push(("C03".into(), format!("panic: {}", msg)));
        }
    }
    let locks = act["locks"].as_str().unwrap_or("");
    if locks.contains('P') && act.get("panic").is_none() {
        v.push(("C03/poison".into(), "a closure unwound while holding the instance state lock (poisoned shared state)".into()));
    }
    if locks.contains('N') && act.get("panic").is_none() {
        v.push(("C17".into(), "nested acquisition of the instance state lock".into()));
    }
    // frames of this call
    let p = ev.get("p").and_then(|x| x.as_u64()).map(|x| x as usize);
    let mut outs: Vec<(usize, &Value)> = vec![];
    if let (Some(p), Some(o)) = (p, act.get("out").and_then(|x| x.as_array())) {
        for a in o {
            outs.push((p, a));
        }
    }
    if let Some(pend) = act.get("pend").and_then(|x| x.as_array()) {
        for (i, l) in pend.iter().enumerate() {
            if let Some(l) = l.as_array() {
                for a in l {
                    outs.push((i + 1, a));
                }
            }
        }
    }
    let mut event_sends: BTreeMap<usize, u32> = BTreeMap::new();
    for (port, a) in &outs {
        let kind = a["a"].as_str().unwrap_or("");
        if kind == "E" {
            *event_sends.entry(*port).or_default() += 1;
        }
        if kind == "E" || kind == "G" {
            let t = a["t"].as_str().unwrap_or("");
            let was = pre_pst.get(port - 1).copied().unwrap_or("?");
            if matches!(t, "Announce" | "Sync" | "FollowUp" | "DelayResp") && was != "M" {
                v.push(("C08".into(), format!("{} emitted by port {} in state {}", t, port, was)));
            }
            if t == "DelayReq" && was != "S" {
                v.push(("C08".into(), format!("Delay_Req emitted by port {} in state {}", port, was)));
            }
            if was == "F" && matches!(t, "Announce" | "Sync" | "FollowUp" | "DelayResp") {
                v.push(("C14".into(), format!("{} emitted by faulty port {}", t, port)));
            }
            if a["len"].as_u64().unwrap_or(0) > 1024 {
                v.push(("C15".into(), format!("{} frame of {} octets exceeds MAX_DATA_LEN", t, a["len"])));
            }
            if a["selfdec"].as_bool() == Some(false) {
                let prop = if t == "Announce" { "C15" } else { "C10" };
                v.push((prop.into(), format!("emitted {} does not decode under the library's own parser", t)));
            }
            if t == "undecodable" {
                v.push(("C10".into(), "emitted frame is not a PTP message".into()));
            } else {
                let want_src = json!([cfg.own.id, port]);
                if a["src"] != want_src {
                    v.push(("C10".into(), format!("{} carries source port identity {} instead of {}", t, a["src"], want_src)));
                }
                // Delay_Resp copies the request's header (incl. domain); everything else uses the instance's
                if t != "DelayResp" && (a["dom"].as_u64() != Some(cfg.domain as u64) || a["sdo"].as_u64() != Some(cfg.sdo as u64)) {
                    v.push(("C10".into(), format!("{} carries domain/sdoId {}/{}", t, a["dom"], a["sdo"])));
                }
            }
        }
    }
    for (port, n) in event_sends {
        if n > 1 {
            v.push(("C10".into(), format!("{} event sends in one action set of port {}", n, port)));
        }
    }
    // C08 clock ownership: steering calls only by the slave port; a leaving port issues one final command
    if let Some(clk) = act["clk"].as_array() {
        let mut finals: BTreeMap<u64, u32> = BTreeMap::new();
        for c in clk {
            let port = c[0].as_u64().unwrap_or(0);
            let kind = c[1].as_str().unwrap_or("");
            let was = pre_pst.get(port as usize - 1).copied().unwrap_or("?");
            let is = pst.get(port as usize - 1).copied().unwrap_or("?");
            if kind == "freq" || kind == "step" {
                if c[2].as_f64() == Some(0.0) && kind == "freq" {
                    // the recording filter's demobilise command
                    *finals.entry(port).or_default() += 1;
                    if !(was == "S" || was == "F" || is == "F") {
                        v.push(("C08".into(), format!("port {} (state {} -> {}) issued a demobilise clock command", port, was, is)));
                    }
                } else if was != "S" {
                    v.push(("C08".into(), format!("port {} steered the clock in state {}", port, was)));
                }
                if was == "F" && is == "F" && !(kind == "freq" && c[2].as_f64() == Some(0.0)) {
                    v.push(("C14".into(), format!("faulty port {} adjusted the clock", port)));
                }
            }
        }
        for (port, n) in finals {
            if n > 2 {
                v.push(("C13".into(), format!("port {} issued {} final clock commands in one call", port, n)));
            }
        }
    }
    v
}

pub fn run_edge(base_cfg: &Value, seed: u64, hist: &[Value], exp: &Value) -> Outcome {
    // an optional leading "init" event overrides parts of the configuration
    let (cfgv, events) = match hist.first() {
        Some(f) if f["e"] == "init" => (merge(base_cfg, &f["cfg"]), &hist[1..]),
        _ => (base_cfg.clone(), hist),
    };
    let mut cfgv = cfgv;
    cfgv.as_object_mut().unwrap().insert("seed".into(), json!(seed));
    let cfg = Cfg::from_json(&cfgv);
    let mut w: World<RecMutex> = World::new(cfg.clone());
    w.start();
    let mut last = json!({});
    let mut pre = Value::Null;
    // the host's timers, as far as this history obeys them: armed by returned actions, disarmed by firing
    let nports = cfg.ports.len();
    let mut armed: Vec<std::collections::BTreeSet<String>> = vec![["rcpt".to_string()].into_iter().collect(); nports];
    let mut obeys = true;
    let mut ever_faulty = vec![false; nports];
    for (i, ev) in events.iter().enumerate() {
        if i + 1 == events.len() {
            pre = w.project(&json!({}));
        }
        if ev["e"] == "t" {
            let p = ev["p"].as_u64().unwrap_or(1) as usize - 1;
            let k = ev["k"].as_str().unwrap_or("").to_string();
            if !armed[p].remove(&k) {
                obeys = false;
            }
        }
        last = w.step(ev);
        for p in 0..nports {
            if w.port_state_letter(p) == "F" {
                ever_faulty[p] = true;
            }
        }
        let mut arm = |p: usize, acts: &Value| {
            if let Some(a) = acts.as_array() {
                for x in a {
                    if x["a"] == "T" {
                        armed[p].insert(x["k"].as_str().unwrap_or("").to_string());
                    }
                }
            }
        };
        if let Some(pend) = last.get("pend").and_then(|x| x.as_array()) {
            for (q, acts) in pend.iter().enumerate() {
                arm(q, acts);
            }
        } else if let Some(out) = last.get("out") {
            let p = ev.get("p").and_then(|x| x.as_u64()).unwrap_or(1) as usize - 1;
            if p < nports {
                arm(p, out);
            }
        }
    }
    let act = w.project(&last);
    let mut mismatch = None;
    if act.get("panic").is_some() && exp.get("panic").is_none() {
        mismatch = Some(format!("panic ({})", act["panic"]));
    } else {
        mismatch = mismatch.or_else(|| subset_match(&w.vals, exp, &act, ""));
    }
    let mut preds = match events.last() {
        Some(_) => predicates(&cfg, events, &pre, &act, cfg.so && !events.iter().any(|e| e["e"] == "so")),
        None => vec![],
    };
    // C12 NoOrphanWait on the real run (only meaningful for histories in which timers fired only while armed)
    if obeys && act.get("panic").is_none() {
        for p in 0..nports {
            let st = act["pst"][p].as_str().unwrap_or("?");
            let mut needs: Vec<&str> = match st {
                "M" => vec!["ann", "sync"],
                "L" => vec!["rcpt"],
                "S" if !cfg.ports[p].p2p => vec!["dreq"],
                _ => vec![],
            };
            let pdst = act["snap"][p]["pd"]["st"].as_str().unwrap_or("E");
            if cfg.ports[p].p2p && pdst != "E" {
                needs.push("dreq");
            }
            for k in needs {
                if !armed[p].contains(k) {
                    if cfg.ports[p].p2p && st == "L" && k == "rcpt" && ever_faulty[p] {
                        preds.push(("C12/orphan-recovered".into(), format!("port {} recovered from the faulty state and is listening without an announce receipt timer", p + 1)));
                    } else {
                        preds.push(("C12/orphan".into(), format!("port {} is in state {} but its {} timer was never (re-)armed", p + 1, st, k)));
                    }
                }
            }
        }
    }
    Outcome {
        act,
        pre,
        mismatch,
        preds,
    }
}

fn parse_edge_line(line: &str) -> Option<Value> {
    // <<"E", "....">>
    let s = line.strip_prefix("<<\"E\", ")?.strip_suffix(">>")?;
    let inner: String = serde_json::from_str(s).ok()?;
    serde_json::from_str(&inner).ok()
}

fn main() {
    vh::quiet_panics();
    vh::maybe_log();
    let args: Vec<String> = std::env::args().collect();
    let mut cfg_path = String::new();
    let mut seed: u64 = std::env::var("VERIF_SEED").ok().and_then(|s| s.parse().ok()).unwrap_or(1);
    let mut report = String::new();
    let mut replay_dir = String::from(".");
    let mut tlc_log = String::new();
    let mut max_keep = 5usize;
    let mut one = String::new();
    let mut tag = String::from("edge");
    let mut i = 1;
    while i < args.len() {
        match args[i].as_str() {
            "--cfg" => { cfg_path = args[i + 1].clone(); i += 1; }
            "--seed" => { seed = args[i + 1].parse().unwrap(); i += 1; }
            "--report" => { report = args[i + 1].clone(); i += 1; }
            "--replay-dir" => { replay_dir = args[i + 1].clone(); i += 1; }
            "--tlc-log" => { tlc_log = args[i + 1].clone(); i += 1; }
            "--max-keep" => { max_keep = args[i + 1].parse().unwrap(); i += 1; }
            "--one" => { one = args[i + 1].clone(); i += 1; }
            "--tag" => { tag = args[i + 1].clone(); i += 1; }
            a => panic!("unknown argument {}", a),
        }
        i += 1;
    }
    if !one.is_empty() {
        let r: Value = serde_json::from_str(&std::fs::read_to_string(&one).unwrap()).unwrap();
        let hist = r["hist"].as_array().unwrap();
        let o = run_edge(&r["cfg"], r["seed"].as_u64().unwrap_or(1), hist, &r["exp"]);
        println!("history : {}", serde_json::to_string(&r["hist"]).unwrap());
        println!("expected: {}", serde_json::to_string(&r["exp"]).unwrap());
        println!("actual  : {}", serde_json::to_string(&o.act).unwrap());
        println!("mismatch: {:?}", o.mismatch);
        println!("predicates violated: {:?}", o.preds);
        std::process::exit(if o.mismatch.is_some() || !o.preds.is_empty() { 1 } else { 0 });
    }
    let base_cfg: Value = serde_json::from_str(&std::fs::read_to_string(&cfg_path).expect("cfg file")).expect("cfg json");
    let mut logf = if tlc_log.is_empty() { None } else { Some(std::fs::File::create(&tlc_log).unwrap()) };
    let stdin = std::io::stdin();
    let mut edges = 0u64;
    let mut events = 0u64;
    let mut mism: BTreeMap<String, u64> = BTreeMap::new();
    let mut pred_counts: BTreeMap<String, u64> = BTreeMap::new();
    let mut kept: BTreeMap<String, Vec<Value>> = BTreeMap::new();
    let mut samples: Vec<Value> = vec![];
    let mut ev_kinds: BTreeMap<String, u64> = BTreeMap::new();
    let mut distinct_last: std::collections::HashSet<u64> = std::collections::HashSet::new();
    let mut maxlen = 0usize;
    for line in stdin.lock().lines() {
        let line = match line { Ok(l) => l, Err(_) => break };
        if !line.starts_with("<<\"E\"") {
            if let Some(f) = logf.as_mut() { let _ = writeln!(f, "{}", line); }
            continue;
        }
        let edge = match parse_edge_line(&line) {
            Some(e) => e,
            None => { eprintln!("unparsable edge line: {}", &line[..line.len().min(200)]); std::process::exit(2); }
        };
        let hist = edge["hist"].as_array().cloned().unwrap_or_default();
        let exp = &edge["exp"];
        if hist.is_empty() {
            continue; // a step of the environment only (e.g. a mode switch) before any call
        }
        edges += 1;
        events += hist.len() as u64;
        maxlen = maxlen.max(hist.len());
        if let Some(l) = hist.last() {
            let k = format!("{}{}", l["e"].as_str().unwrap_or("?"), l.get("k").and_then(|x| x.as_str()).map(|s| format!(":{}", s)).unwrap_or_default());
            *ev_kinds.entry(k).or_default() += 1;
        }
        let o = run_edge(&base_cfg, seed, &hist, exp);
        {
            // distinct non-trivial cases: (last event, observable post-state) pairs that change state or produce output
            use std::hash::{Hash, Hasher};
            let mut h = std::collections::hash_map::DefaultHasher::new();
            let nontrivial = o.act.get("out").map(|x| x.as_array().map(|a| !a.is_empty()).unwrap_or(false)).unwrap_or(false)
                || o.act.get("pend").is_some()
                || o.act["pst"] != o.pre["pst"] || o.act["snap"] != o.pre["snap"] || o.act["gm"] != o.pre["gm"] || o.act["steps"] != o.pre["steps"];
            if nontrivial {
                serde_json::to_string(hist.last().unwrap_or(&Value::Null)).unwrap().hash(&mut h);
                serde_json::to_string(&o.pre["pst"]).unwrap().hash(&mut h);
                serde_json::to_string(&o.act["pst"]).unwrap().hash(&mut h);
                serde_json::to_string(&o.act.get("out")).unwrap().hash(&mut h);
                serde_json::to_string(&o.act.get("pend")).unwrap().hash(&mut h);
                serde_json::to_string(&o.act["flt"]).unwrap().hash(&mut h);
                distinct_last.insert(h.finish());
            }
        }
        if samples.len() < 3 && hist.len() >= 3 && edges % 97 == 1 {
            samples.push(json!({"hist": hist, "observed": {"pst": o.act["pst"], "ppi": o.act["ppi"], "steps": o.act["steps"], "out": o.act.get("out"), "pend": o.act.get("pend")}}));
        }
        let record = |key: String, kind: &str, detail: String, kept: &mut BTreeMap<String, Vec<Value>>| {
            let list = kept.entry(key.clone()).or_default();
            if list.len() < max_keep {
                let path = format!("{}/{}-{}-{}-{}.json", replay_dir, tag, kind, key.replace(|c: char| !c.is_alphanumeric(), "_"), list.len());
                let rf = json!({"cfg": base_cfg, "seed": seed, "hist": hist, "exp": exp, "kind": kind, "key": key, "detail": detail, "act": o.act});
                std::fs::create_dir_all(&replay_dir).ok();
                std::fs::write(&path, serde_json::to_string_pretty(&rf).unwrap()).ok();
                list.push(json!({"replay": path, "detail": detail, "last": hist.last()}));
            }
        };
        if let Some(m) = &o.mismatch {
            let key = top_key(m, exp);
            *mism.entry(key.clone()).or_default() += 1;
            record(format!("field:{}", key), "mismatch", m.clone(), &mut kept);
        }
        for (prop, d) in &o.preds {
            *pred_counts.entry(prop.clone()).or_default() += 1;
            record(format!("pred:{}", prop), "predicate", d.clone(), &mut kept);
        }
    }
    let rep = json!({
        "edges": edges, "events": events, "max_history": maxlen, "seed": seed,
        "distinct_nontrivial": distinct_last.len(),
        "mismatch_by_field": mism, "predicate_violations": pred_counts,
        "kept": kept, "samples": samples, "last_event_kinds": ev_kinds,
    });
    let mut m = Map::new();
    m.insert("report".into(), rep.clone());
    if report.is_empty() {
        println!("{}", serde_json::to_string_pretty(&rep).unwrap());
    } else {
        std::fs::write(&report, serde_json::to_string_pretty(&rep).unwrap()).unwrap();
    }
}
