//! C07, two-run form on the real code: a random host history H and the same
//! history with "noise" frames inserted at random positions are run in
//! lock-step on two fresh worlds with identical scripted rngs; after every
//! common event the complete projections (port states, data sets, returned
//! actions, clock and filter calls, rng draws, internal snapshot) must be equal.
use serde_json::{json, Value};
use vh::collab::RecMutex;
use vh::world::{splitmix, Cfg, World};

struct Rnd(u64);
impl Rnd {
    fn next(&mut self) -> u64 {
        self.0 = splitmix(self.0);
        self.0
    }
    fn below(&mut self, n: u64) -> u64 {
        self.next() % n
    }
}

fn cfg(seed: u64, variant: u64) -> Value {
    // port 1 has an acceptable master list {2, 9}; variants: E2E / P2P second port / path trace
    let ports = match variant % 3 {
        0 => json!([{"p2p": false, "aml": [2, 9], "asym": "asym"}]),
        1 => json!([{"p2p": false, "aml": [2, 9], "asym": "asym"}, {"p2p": false}]),
        _ => json!([{"p2p": true, "aml": [2, 9], "asym": "asym"}]),
    };
    json!({"own": {"id": 5, "ptrace": variant % 2 == 1}, "ports": ports, "seed": seed})
}

fn noise(r: &mut Rnd, w: &World<RecMutex>) -> Value {
    let snap = w.snapshot(0);
    let did = snap["delay"]["id"].as_u64().unwrap_or(0);
    let sid = snap["sync"]["id"].as_u64().unwrap_or(7);
    let par = json!([2, 1]);
    let g = json!([1, 6, 33, 100, 1, 2]);
    match r.below(16) {
        0 => json!({"e": "ann", "p": 1, "src": par, "seq": r.below(65536), "g": g, "steps": 0, "dom": 1 + r.below(200)}),
        1 => json!({"e": "ann", "p": 1, "src": par, "seq": r.below(65536), "g": g, "steps": 0, "sdo": 1 + r.below(4000)}),
        2 => { let ver = [0u64, 1, 3, 15][r.below(4) as usize]; json!({"e": "sync", "p": 1, "src": par, "seq": sid, "two": false, "rx": "t2_n", "c": "cs_n", "w1": "w1_n", "ver": ver}) }
        3 => json!({"e": "fup", "p": 1, "src": par, "seq": sid, "w1": "w1_n", "c": "cf_n", "cut": 34 + r.below(10)}),
        4 => json!({"e": "dresp", "p": 1, "src": par, "seq": did, "req": [5, 1], "w4": "w4_n", "c": "cr_n", "mlen": r.below(34)}),
        5 => json!({"e": "sig", "p": 1, "src": par, "seq": r.below(65536)}),
        6 => json!({"e": "mgmt", "p": 1, "src": par, "seq": r.below(65536)}),
        7 => json!({"e": "ann", "p": 1, "src": [11 + r.below(3), 1], "seq": r.below(65536), "g": [1, 6, 33, 100, 1, 11], "steps": 0}),
        8 => json!({"e": "ann", "p": 1, "src": [5, 1], "seq": r.below(65536), "g": [1, 6, 33, 100, 1, 5], "steps": 0}),
        9 => json!({"e": "sync", "p": 1, "src": [9, 1], "seq": sid, "two": r.below(2) == 0, "rx": "t2_n", "c": "cs_n", "w1": "w1_n"}),
        10 => json!({"e": "fup", "p": 1, "src": [9, 1], "seq": sid, "w1": "w1_n", "c": "cf_n"}),
        11 => json!({"e": "dresp", "p": 1, "src": [9, 1], "seq": did, "req": [5, 1], "w4": "w4_n", "c": "cr_n"}),
        12 => json!({"e": "dresp", "p": 1, "src": par, "seq": did, "req": [5, 2 + r.below(3)], "w4": "w4_n", "c": "cr_n"}),
        13 => json!({"e": "dresp", "p": 1, "src": par, "seq": did, "req": [7, 1], "w4": "w4_n", "c": "cr_n"}),
        14 => json!({"e": "sync", "p": 1, "src": par, "seq": sid, "two": false, "rx": "t2_n", "c": "cs_n", "w1": "w1_n", "chan": "g"}),
        _ => {
            // arbitrary octets that are not a PTPv2 frame (versionPTP nibble forced away from 2)
            let mut b: Vec<u8> = (0..r.below(70)).map(|_| r.below(256) as u8).collect();
            if b.len() > 1 && b[1] & 0x0f == 2 {
                b[1] ^= 0x01;
            }
            json!({"e": "raw", "p": 1, "chan": if r.below(2) == 0 { "g" } else { "e" }, "rx": "t2_n",
                   "hex": b.iter().map(|x| format!("{:02x}", x)).collect::<String>()})
        }
    }
}

fn regular(r: &mut Rnd, w: &World<RecMutex>, st: &mut (u64, u64, u64)) -> Value {
    let np = w.ports.len() as u64;
    let p = 1 + r.below(np);
    let snap = w.snapshot(0);
    let did = snap["delay"]["id"].as_u64().unwrap_or(0);
    let pid = snap["pd"]["id"].as_u64().unwrap_or(0);
    match r.below(22) {
        0..=3 => { st.0 += 1; json!({"e": "ann", "p": p, "src": [2, 1], "seq": st.0, "g": [100, 248, 254, 65535, 128, 2], "steps": r.below(3), "tp": {"utc": 37, "leap": 0, "tt": true, "ft": true, "ptp": true, "src": 32},
                                      "path": [2], "tlvs": [{"ty": 16384, "len": 2 * r.below(5), "tag": 1}]}) }
        4 => { st.1 += 1; json!({"e": "ann", "p": p, "src": [9, 1], "seq": st.1, "g": [128, 248, 254, 65535, 128, 9], "steps": 0}) }
        5..=6 => json!({"e": "bmca"}),
        7 => json!({"e": "t", "k": "ann", "p": p}),
        8 => json!({"e": "t", "k": "sync", "p": p}),
        9..=10 => json!({"e": "t", "k": "dreq", "p": p}),
        11 => json!({"e": "t", "k": "rcpt", "p": p}),
        12..=13 => { st.2 += 1; json!({"e": "sync", "p": 1, "src": [2, 1], "seq": st.2 / 2, "two": r.below(2) == 0, "rx": format!("t2_{}", st.2), "c": format!("cs_{}", st.2), "w1": format!("w1_{}", st.2)}) }
        14 => json!({"e": "fup", "p": 1, "src": [2, 1], "seq": st.2 / 2, "w1": format!("w1_{}", st.2), "c": format!("cf_{}", st.2)}),
        15..=16 => json!({"e": "dresp", "p": 1, "src": [2, 1], "seq": did, "req": [5, 1], "w4": format!("w4_{}", st.2), "c": format!("cr_{}", st.2)}),
        17..=18 => {
            let n = w.ctxs[(p - 1) as usize].len() as u64;
            if n == 0 { json!({"e": "t", "k": "filt", "p": p}) } else { json!({"e": "ts", "p": p, "c": 1 + r.below(n), "t": format!("t3_{}", r.below(8))}) }
        }
        19 => json!({"e": "dreq", "p": p, "src": [7, 1], "seq": r.below(65536), "c": "cq_1", "rx": "tr_1"}),
        20 => json!({"e": "pdresp", "p": 1, "src": [7, 1], "seq": pid, "req": [5, 1], "two": false, "w2": "w2_1", "c": "cr_1", "rx": "t4_1"}),
        _ => json!({"e": "so", "v": r.below(4) == 0}),
    }
}

fn run(seed: u64, idx: u64, len: usize, dir: &str, replay: Option<&Value>) -> (u64, Option<Value>) {
    let c = cfg(seed, idx);
    let mut a: World<RecMutex> = World::new(Cfg::from_json(&c));
    let mut b: World<RecMutex> = World::new(Cfg::from_json(&c));
    a.start();
    b.start();
    let mut r = Rnd(seed.wrapping_mul(1_000_003).wrapping_add(idx));
    let mut st = (100u64, 0u64, 0u64);
    let mut hist: Vec<Value> = vec![];
    let mut calls = 0u64;
    let script: Option<Vec<Value>> = replay.map(|v| v["hist"].as_array().unwrap().clone());
    let n = script.as_ref().map(|s| s.len()).unwrap_or(len);
    for i in 0..n {
        let (ev, is_noise) = match &script {
            Some(s) => (s[i]["ev"].clone(), s[i]["noise"].as_bool().unwrap()),
            None => {
                if r.below(10) < 3 { (noise(&mut r, &b), true) } else { (regular(&mut r, &b, &mut st), false) }
            }
        };
        hist.push(json!({"ev": ev, "noise": is_noise}));
        calls += 1;
        if is_noise {
            let before = a.project(&json!({}));
            let res = a.step(&ev);
            let after = a.project(&json!({}));
            // one-run form as well: nothing returned, nothing changed
            let empty = res.get("out").and_then(|o| o.as_array()).map(|o| o.is_empty()).unwrap_or(false);
            let strip = |v: &Value| { let mut v = v.clone(); let o = v.as_object_mut().unwrap(); o.remove("clk"); o.remove("flt"); o.remove("locks"); v };
            if !empty || strip(&before) != strip(&after) || !after["clk"].as_array().unwrap().is_empty() || !after["flt"].as_array().unwrap().is_empty() {
                return (calls, Some(json!({"kind": "tworun", "seed": seed, "idx": idx, "hist": hist, "what": "inserted frame had an effect", "result": res, "before": before, "after": after})));
            }
        } else {
            let ra = a.step(&ev);
            let pa = a.project(&ra);
            let rb = b.step(&ev);
            let pb = b.project(&rb);
            calls += 1;
            if pa != pb {
                return (calls, Some(json!({"kind": "tworun", "seed": seed, "idx": idx, "hist": hist, "what": "runs with and without the inserted frames diverge", "with": pa, "without": pb})));
            }
        }
    }
    let _ = dir;
    (calls, None)
}

fn main() {
    vh::quiet_panics();
    let args: Vec<String> = std::env::args().collect();
    let mut runs = 100u64;
    let mut seed = 1u64;
    let mut len = 60usize;
    let mut dir = String::from(".");
    let mut one = String::new();
    let mut i = 1;
    while i < args.len() {
        match args[i].as_str() {
            "--runs" => { runs = args[i + 1].parse().unwrap(); i += 1; }
            "--seed" => { seed = args[i + 1].parse().unwrap(); i += 1; }
            "--len" => { len = args[i + 1].parse().unwrap(); i += 1; }
            "--replay-dir" => { dir = args[i + 1].clone(); i += 1; }
            "--one" => { one = args[i + 1].clone(); i += 1; }
            _ => {}
        }
        i += 1;
    }
    if !one.is_empty() {
        let v: Value = serde_json::from_str(&std::fs::read_to_string(&one).unwrap()).unwrap();
        let (_, res) = run(v["seed"].as_u64().unwrap(), v["idx"].as_u64().unwrap(), 0, &dir, Some(&v));
        match res {
            Some(d) => { println!("{}", serde_json::to_string_pretty(&d).unwrap()); std::process::exit(1); }
            None => { println!("runs agree"); std::process::exit(0); }
        }
    }
    let mut viol = vec![];
    let mut calls = 0u64;
    let mut noise_events = 0u64;
    for idx in 0..runs {
        let (c, res) = run(seed, idx, len, &dir, None);
        calls += c;
        noise_events += (len as u64 * 3) / 10;
        if let Some(d) = res {
            if viol.len() < 5 {
                let path = format!("{}/tworun-{}.json", dir, viol.len());
                std::fs::create_dir_all(&dir).ok();
                std::fs::write(&path, serde_json::to_string_pretty(&d).unwrap()).ok();
                viol.push(json!({"detail": format!("{} (run {})", d["what"].as_str().unwrap(), idx), "replay": path}));
            }
        }
    }
    println!("{}", json!({"runs": runs, "calls": calls, "approx_noise_events": noise_events, "violations": viol}));
}
