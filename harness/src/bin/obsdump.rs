//! C19: replays histories on real objects, assembles the observable state from
//! the real getters exactly as statime-linux/src/main.rs does after a BMCA, and
//! serialises it with serde_json as the daemon's observer does (`write_json`).
//! stdin: one JSON object per line {cfg, hist, est: {off, delay}}; stdout: one
//! line per input {json, live, ids}.
use std::io::BufRead;

use serde_json::{json, Value};
use statime_linux::metrics::exporter::{ObservableState, ProgramData};
use statime_linux::observer::ObservableInstanceState;
use vh::collab::RecMutex;
use vh::world::{Cfg, Slot, World};

fn main() {
    vh::quiet_panics();
    for line in std::io::stdin().lock().lines() {
        let line = line.unwrap();
        if line.trim().is_empty() { continue; }
        let v: Value = serde_json::from_str(&line).unwrap();
        let cfg = Cfg::from_json(&v["cfg"]);
        let mut w: World<RecMutex> = World::new(cfg.clone());
        w.start();
        let mut last = json!({});
        for ev in v["hist"].as_array().unwrap() { last = w.step(ev); }
        if let Some(e) = v.get("est") {
            w.sh.est_offset_bits.set(e["off"].as_str().unwrap().parse().unwrap());
            w.sh.est_delay_bits.set(e["delay"].as_str().unwrap().parse().unwrap());
        }
        let inst = w.inst();
        // main.rs: current_ds(contribution of the first port that has one)
        let contribution = w.ports.iter().filter_map(|p| match p { Slot::Run(p) => p.port_current_ds_contribution(), Slot::Bmca(p) => p.port_current_ds_contribution(), _ => None }).next();
        let had_contribution = contribution.is_some();
        let state = ObservableInstanceState {
            default_ds: inst.default_ds(),
            current_ds: inst.current_ds(contribution),
            parent_ds: inst.parent_ds(),
            time_properties_ds: inst.time_properties_ds(),
            path_trace_ds: inst.path_trace_ds(),
            port_ds: w.ports.iter().filter_map(|p| match p { Slot::Run(p) => Some(p.port_ds()), Slot::Bmca(p) => Some(p.port_ds()), _ => None }).collect(),
        };
        let obs = ObservableState { program: ProgramData::with_uptime(12.5), instance: state };
        let text = String::from_utf8(serde_json::to_vec(&obs).unwrap()).unwrap();
        // identity strings as the exporter prints them
        let mut ids = serde_json::Map::new();
        for n in 0u32..256 { ids.insert(n.to_string(), json!(statime::config::ClockIdentity(cfg.clock_id(n)).to_string())); }
        let live = w.project(&last);
        println!("{}", json!({"json": text, "live": live, "ids": ids, "slave_contribution": had_contribution,
                              "est": {"off_ns": w.sh.est_offset_bits.get() as f64 / 4294967296.0, "delay_ns": w.sh.est_delay_bits.get() as f64 / 4294967296.0}}));
    }
}
