//! C16: vectors evaluated by TLC from specs/TimeArith.tla (limb reference) are
//! applied to statime's Time / Duration / Interval through the public API; the
//! harness rebuilds each operand from its limbs with its own 128-bit integer
//! arithmetic. Wire conversions are additionally observed through a real port
//! (emitted Follow_Up, received one-step Sync, exported delay asymmetry).
use std::io::BufRead;
use std::panic::{catch_unwind, AssertUnwindSafe};

use serde_json::{json, Value};
use statime::time::{Duration, Interval, Time};
use vh::collab::{dur_bits, dur_from_bits, time_bits, time_from_bits, RecMutex};
use vh::world::{splitmix, Cfg, World};

fn mag(v: &Value) -> i128 {
    let l: Vec<i128> = v.as_array().unwrap().iter().map(|x| x.as_i64().unwrap() as i128).collect();
    (((l[0] * 16777216 + l[1]) * 1_000_000_000 + l[2]) << 32) + l[3] * 65536 + l[4]
}
fn dur(v: &Value) -> i128 { let m = mag(&v["m"]); if v["neg"].as_bool().unwrap() { -m } else { m } }

struct Ctx { viol: Vec<Value>, dir: String, n: u64 }
impl Ctx {
    fn fail(&mut self, what: String, vec: &Value) {
        if self.viol.len() < 8 {
            let path = format!("{}/timevec-{}.json", self.dir, self.viol.len());
            std::fs::create_dir_all(&self.dir).ok();
            std::fs::write(&path, serde_json::to_string_pretty(&json!({"kind": "timevec", "detail": what, "vector": vec})).unwrap()).ok();
            self.viol.push(json!({"detail": what, "replay": path}));
        }
    }
}

fn main() {
    vh::quiet_panics();
    let args: Vec<String> = std::env::args().collect();
    let mut dir = String::from(".");
    let mut seed = 1u64;
    let mut random = 0u64;
    let mut i = 1;
    while i < args.len() {
        match args[i].as_str() {
            "--replay-dir" => { dir = args[i + 1].clone(); i += 1; }
            "--seed" => { seed = args[i + 1].parse().unwrap(); i += 1; }
            "--random" => { random = args[i + 1].parse().unwrap(); i += 1; }
            _ => {}
        }
        i += 1;
    }
    let mut cx = Ctx { viol: vec![], dir, n: 0 };
    let mut samples = vec![];
    let mut under = 0u64;
    let mut over = 0u64;
    let mut port_checks = 0u64;
    // one master port and one slave port to observe the wire conversions
    let mut wm: World<RecMutex> = World::new(Cfg::from_json(&json!({"own": {"id": 5}, "ports": [{"p2p": false}], "seed": seed})));
    wm.start();
    wm.step(&json!({"e": "t", "k": "rcpt", "p": 1}));
    // a slave port for the other direction: a received originTimestamp (wire) becomes a Time
    let mut ws: World<RecMutex> = World::new(Cfg::from_json(&json!({"own": {"id": 5}, "ports": [{"p2p": false}], "seed": seed})));
    ws.start();
    for sq in [1u64, 2] { ws.step(&json!({"e": "ann", "p": 1, "src": [2, 1], "seq": sq, "g": [1, 6, 33, 100, 1, 2], "steps": 0})); }
    ws.step(&json!({"e": "bmca"}));
    let mut rx_checks = 0u64;
    let mut sync_seq = 100u64;
    let check_ops = |t: i128, d: i128, cx: &mut Ctx, vec: &Value, model: Option<&Value>, under: &mut u64, over: &mut u64| {
        let tt = time_from_bits(t as u128);
        let dd = dur_from_bits(d);
        for (name, sign) in [("plus", 1i128), ("minus", -1i128)] {
            let exact = t + sign * d;
            let r = catch_unwind(AssertUnwindSafe(|| if sign == 1 { time_bits(tt + dd) } else { time_bits(tt - dd) }));
            let want_model = model.map(|m| &m[name]);
            match r {
                Err(_) => cx.fail(format!("Time {} Duration panicked (t = {} , d = {} in 2^-32 ns)", name, t, d), vec),
                Ok(bits) => {
                    if exact < 0 {
                        *under += 1;
                        if bits != 0 { cx.fail(format!("Time {} Duration below zero gave {} (silent wrap) instead of clamping", name, bits), vec); }
                        if let Some(m) = want_model { if m["st"] != "under" { cx.fail(format!("reference disagrees with the harness on underflow of {}", name), vec); } }
                    } else {
                        if bits as i128 != exact { cx.fail(format!("Time {} Duration = {} expected {}", name, bits, exact), vec); }
                        if let Some(m) = want_model {
                            if m["st"] == "ok" { if mag(&m["t"]) != exact { cx.fail(format!("limb reference and integer arithmetic disagree on {}", name), vec); } }
                            else if m["st"] == "over" { *over += 1; }
                            else { cx.fail(format!("reference says {} for {}", m["st"], name), vec); }
                        }
                    }
                }
            }
        }
        // secs / subsec_nanos / difference
        let secs = (t >> 32) / 1_000_000_000;
        let ns = (t >> 32) % 1_000_000_000;
        if secs <= u64::MAX as i128 {
            let r = catch_unwind(AssertUnwindSafe(|| (tt.secs(), tt.subsec_nanos())));
            match r { Ok((s, n)) => if s as i128 != secs || n as i128 != ns { cx.fail(format!("secs/subsec_nanos = {}/{} expected {}/{}", s, n, secs, ns), vec); }, Err(_) => cx.fail("secs()/subsec_nanos() panicked".into(), vec) }
        }
    };
    for line in std::io::stdin().lock().lines() {
        let line = line.unwrap();
        let s = match line.strip_prefix("<<\"E\", ").and_then(|s| s.strip_suffix(">>")) { Some(s) => s, None => { eprintln!("{}", line); continue; } };
        let inner: String = serde_json::from_str(s).unwrap();
        let v: Value = serde_json::from_str(&inner).unwrap();
        cx.n += 1;
        let t = mag(&v["t"]);
        let d = dur(&v["d"]);
        if samples.len() < 3 && cx.n % 4001 == 7 { samples.push(v.clone()); }
        check_ops(t, d, &mut cx, &v, Some(&v), &mut under, &mut over);
        // wire split per the reference vs secs()/subsec_nanos()
        let w = v["wire"].as_array().unwrap();
        let wsecs = w[0].as_i64().unwrap() as i128 * 16777216 + w[1].as_i64().unwrap() as i128;
        if (t >> 32) / 1_000_000_000 != wsecs || (t >> 32) % 1_000_000_000 != w[2].as_i64().unwrap() as i128 { cx.fail("limb reference and integer arithmetic disagree on the wire split".into(), &v); }
        // difference of two times
        let t2 = mag(&json!([v["d"]["m"][0].as_i64().unwrap() % 16, v["d"]["m"][1], v["d"]["m"][2], 0, 0]));
        let r = catch_unwind(AssertUnwindSafe(|| dur_bits(time_from_bits(t as u128) - time_from_bits(t2 as u128))));
        match r { Ok(b) => { if b != t - t2 { cx.fail(format!("Time - Time = {} expected {}", b, t - t2), &v); } if dur(&v["diff"]) != t - t2 { cx.fail("limb reference disagrees on Time - Time".into(), &v); } }
                  Err(_) => cx.fail("Time - Time panicked".into(), &v) }
        // through a real port: Follow_Up carries ToWire(t) and SubNano(t); exported asymmetry = ToInterval(d)
        if cx.n % 37 == 0 {
            port_checks += 1;
            let r = wm.step(&json!({"e": "t", "k": "sync", "p": 1}));
            let ctx = r["out"][1]["ctx"].as_u64().unwrap();
            // inject the exact time through a name with the bits in it
            let name = format!("tS_{}", cx.n);
            let _ = name;
            wm.sh.now_bits.set(0);
            // world values come from names; use the raw API instead: handle_send_timestamp needs a Time -> go through World::step_with_time
            let fr = wm.step_ts_bits(1, ctx as usize, t as u128);
            let f = &fr["out"][0];
            let want_ts = ((t >> 32) << 32).to_string();
            let want_sum = ((t >> 16) << 16).to_string();
            if f["t"] != "FollowUp" || f["ts"] != want_ts.as_str() || f["tsum"] != want_sum.as_str() {
                cx.fail(format!("Follow_Up for transmit time {}: origin {} (expected {}), origin+correction {} (expected {})", t, f["ts"], want_ts, f["tsum"], want_sum), &v);
            }
            // receive direction: a one-step Sync from the parent whose originTimestamp is ToWire(t), received at local time t with a zero
            // correction field: the raw offset handed to the filter is t - FromWire(ToWire(t)), the sub-nanosecond part of t
            if ws.project(&json!({}))["pst"][0] == "S" {
                rx_checks += 1;
                sync_seq = (sync_seq + 1) % 65536;
                let wire_bits = ((t >> 32) << 32) as u128;
                // ... and with the correction field ToInterval(d) of the lattice's duration (every limb at its extremes): the raw offset is
                // t - FromWire(ToWire(t)) - FromInterval(ToInterval(d)), exactly (a wire time interval is 64 bits; a conversion that goes
                // through a 53 bit mantissa loses the low bits of the large ones)
                let civ = dur(&v["interval"]) >> 16;
                let with_c = rx_checks % 2 == 0 && civ.abs() < (1i128 << 62) && (civ << 16) <= t;   // the port subtracts the correction from the receive time
                let cname = if with_c { format!("={}", civ) } else { "c0#zero".to_string() };
                let res = ws.step(&json!({"e": "sync", "p": 1, "src": [2, 1], "seq": sync_seq, "two": false, "rx": format!("={}", t as u128), "c": cname, "w1": format!("={}", wire_bits)}));
                if res.get("panic").is_some() { cx.fail(format!("receiving a Sync with originTimestamp {} s panicked: {}", (t >> 32) / 1_000_000_000, res["panic"]), &v); }
                else {
                    let pr = ws.project(&res);
                    let m = pr["flt"].as_array().and_then(|a| a.iter().rev().find(|x| x["k"] == "meas")).cloned();
                    let want = (t - (wire_bits as i128) - if with_c { civ << 16 } else { 0 }).to_string();
                    match m {
                        Some(m) if m["rs"] == want.as_str() && m["et"] == ((t - if with_c { civ << 16 } else { 0 }) as u128).to_string().as_str() => {}
                        other => cx.fail(format!("Sync with originTimestamp ToWire(t), t = {}, correction {} x 2^-16 ns: the filter saw {:?}, expected raw offset {} at event time {}", t, if with_c { civ } else { 0 }, other, want, t - if with_c { civ << 16 } else { 0 }), &v),
                    }
                }
            }
            let iv = &v["interval"];
            let want_iv = dur(iv) >> 16;
            if want_iv.abs() < (1i128 << 62) {
                let got = vh::world::asymmetry_interval_bits(d);
                if got as i128 != want_iv { cx.fail(format!("Duration {} -> TimeInterval {} expected {}", d, got, want_iv), &v); }
            }
        }
    }
    // random part of the range (not on the lattice), same checks against the harness's integer arithmetic
    let mut x = seed;
    for k in 0..random {
        x = splitmix(x.wrapping_add(k));
        let t = ((splitmix(x) as u128 % ((1u128 << 48) * 1_000_000_000)) << 32 | (splitmix(x ^ 1) & 0xffff_ffff) as u128) as i128;
        let dm = (((splitmix(x ^ 2) as u128) % (1u128 << 63)) << 32 | (splitmix(x ^ 3) & 0xffff_ffff) as u128) as i128;
        let d = if splitmix(x ^ 4) & 1 == 0 { dm } else { -dm };
        let d = match k % 4 { 0 => d, 1 => d >> 20, 2 => d >> 40, _ => d >> 62 };
        cx.n += 1;
        check_ops(t, d, &mut cx, &json!({"t_bits": t.to_string(), "d_bits": d.to_string()}), None, &mut under, &mut over);
        let iv = vh::world::asymmetry_interval_bits(d);
        if (d >> 16).abs() < (1i128 << 62) && iv as i128 != d >> 16 { cx.fail(format!("Duration {} -> TimeInterval {} expected {}", d, iv, d >> 16), &json!({"d_bits": d.to_string()})); }
        // wire time interval -> Duration on the receive path, over the whole 64 bit range (the lattice's limbs jump from 1 s to 2^24 s):
        // a one-step Sync from the parent with originTimestamp 0 and a random 62 / 50 / 30 bit correction field, received at time t
        if k % 8 == 0 && ws.project(&json!({}))["pst"][0] == "S" {
            let civ = ((splitmix(x ^ 5) as i64) >> [2, 14, 34][(k / 8 % 3) as usize]) as i128;
            if (civ << 16) <= t {
                rx_checks += 1;
                sync_seq = (sync_seq + 1) % 65536;
                let res = ws.step(&json!({"e": "sync", "p": 1, "src": [2, 1], "seq": sync_seq, "two": false, "rx": format!("={}", t as u128), "c": format!("={}", civ), "w1": "=0"}));
                let vec = json!({"t_bits": t.to_string(), "correction_field": civ.to_string()});
                if res.get("panic").is_some() { cx.fail(format!("receiving a Sync with correction field {} panicked: {}", civ, res["panic"]), &vec); }
                else {
                    let pr = ws.project(&res);
                    let m = pr["flt"].as_array().and_then(|a| a.iter().rev().find(|x| x["k"] == "meas")).cloned();
                    let want = (t - (civ << 16)).to_string();
                    match m {
                        Some(m) if m["rs"] == want.as_str() && m["et"] == want.as_str() => {}
                        other => cx.fail(format!("Sync received at {} with correction field {} x 2^-16 ns: the filter saw {:?}, expected raw offset and event time {}", t, civ, other, want), &vec),
                    }
                }
            }
        }
    }
    // log intervals
    let mut logs = 0;
    for n in -64i32..=63 {
        logs += 1;
        let r = catch_unwind(AssertUnwindSafe(|| (dur_bits(Interval::from_log_2(n as i8).as_duration()), dur_bits(Duration::from_log_interval(n as i8)), Interval::from_log_2(n as i8).as_core_duration())));
        match r {
            Err(_) => cx.fail(format!("log interval {} panicked", n), &json!({"log": n})),
            Ok((a, b, c)) => {
                // 2^n s in 2^-32 ns = 10^9 * 2^(32+n); exact when n >= -41 (10^9 = 2^9 * 5^9)
                let exact_num: i128 = 1_000_000_000;
                let want = if n + 32 >= 0 { exact_num << (n + 32) } else { exact_num >> (-(n + 32)) };
                let exact = n >= -41;
                for (nm, got) in [("Interval::as_duration", a), ("Duration::from_log_interval", b)] {
                    if (exact && got != want) || (!exact && (got - want).abs() > 1) { cx.fail(format!("{}({}) = {} expected {} (2^{} s)", nm, n, got, want, n), &json!({"log": n})); }
                }
                let want_core = if n >= 0 { std::time::Duration::from_secs(1u64 << n) } else if n >= -9 { std::time::Duration::from_nanos(1_000_000_000u64 >> (-n)) } else { c };
                if c != want_core { cx.fail(format!("as_core_duration({}) = {:?} expected {:?}", n, c, want_core), &json!({"log": n})); }
            }
        }
    }
    println!("{}", json!({"vectors": cx.n, "underflow_vectors": under, "beyond_ptp_range": over, "port_checks": port_checks, "receive_checks": rx_checks, "log_intervals": logs, "samples": samples, "violations": cx.viol}));
}
