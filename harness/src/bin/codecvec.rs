//! C04: vectors evaluated by TLC from specs/Codec.tla are fed to statime's
//! parser (`fuzz::FuzzMessage`): accept/reject must agree with the reference
//! (and with the harness's own independent decoder), an accepted message must
//! re-encode to exactly the reference's canonical form with the declared
//! length, decode again to an equal message and re-encode identically.
use std::io::BufRead;
use std::panic::{catch_unwind, AssertUnwindSafe};

use serde_json::{json, Value};
use statime::fuzz::FuzzMessage;
use vh::wire::{hex, Frame};

fn main() {
    vh::quiet_panics();
    let args: Vec<String> = std::env::args().collect();
    let mut dir = String::from(".");
    let mut i = 1;
    while i < args.len() {
        if args[i] == "--replay-dir" { dir = args[i + 1].clone(); i += 1; }
        i += 1;
    }
    let mut viol: Vec<Value> = vec![];
    let mut n = 0u64;
    let mut accepted = 0u64;
    let mut rejected = 0u64;
    let mut ref_accepts_code_rejects = 0u64;
    let mut reserved_value = 0u64;
    let mut samples = vec![];
    let mut kinds: std::collections::BTreeMap<String, u64> = Default::default();
    let mut fail = |key: &str, what: String, b: &[u8], viol: &mut Vec<Value>, kinds: &mut std::collections::BTreeMap<String, u64>| {
        *kinds.entry(key.to_string()).or_default() += 1;
        if viol.iter().filter(|v| v["key"] == key).count() < 3 {
            let path = format!("{}/codec-{}-{}.json", dir, key.replace('/', "_"), viol.len());
            std::fs::create_dir_all(&dir).ok();
            std::fs::write(&path, serde_json::to_string_pretty(&json!({"kind": "codecvec", "key": key, "detail": what, "bytes": hex(b)})).unwrap()).ok();
            viol.push(json!({"key": key, "detail": what, "replay": path}));
        }
    };
    for line in std::io::stdin().lock().lines() {
        let line = line.unwrap();
        let s = match line.strip_prefix("<<\"E\", ").and_then(|s| s.strip_suffix(">>")) { Some(s) => s, None => { eprintln!("{}", line); continue; } };
        let inner: String = serde_json::from_str(s).unwrap();
        let v: Value = serde_json::from_str(&inner).unwrap();
        n += 1;
        let b: Vec<u8> = v["b"].as_array().map(|a| a.iter().map(|x| x.as_u64().unwrap() as u8).collect()).unwrap_or_default();
        let ok = v["ok"].as_bool().unwrap();
        let own = Frame::decode(&b).is_ok();
        if own != ok {
            eprintln!("REFERENCE DISAGREEMENT: Codec.tla says {} and the harness decoder says {} for {}", ok, own, hex(&b));
            std::process::exit(2);
        }
        if samples.len() < 3 && n % 1777 == 5 { samples.push(json!({"bytes": hex(&b), "reference_accepts": ok})); }
        let r = catch_unwind(AssertUnwindSafe(|| FuzzMessage::deserialize(&b).ok()));
        let msg = match r {
            Err(_) => { fail("C04/panic", "deserialize panicked".into(), &b, &mut viol, &mut kinds); continue; }
            Ok(m) => m,
        };
        match (ok, msg) {
            (false, None) => rejected += 1,
            (true, None) => { ref_accepts_code_rejects += 1; fail("C04/rejects-valid", "a well-formed message is rejected".into(), &b, &mut viol, &mut kinds); }
            (false, Some(_)) => fail("C04/accepts-invalid", "a buffer that is not a PTP message (per Clause 13 framing) is accepted".into(), &b, &mut viol, &mut kinds),
            (true, Some(m)) => {
                accepted += 1;
                let canon: Vec<u8> = v["canon"].as_array().unwrap().iter().map(|x| x.as_u64().unwrap() as u8).collect();
                let rv: Vec<usize> = v["rv"].as_array().map(|a| a.iter().map(|x| x.as_u64().unwrap() as usize).collect()).unwrap_or_default();
                let ml = u16::from_be_bytes([b[2], b[3]]) as usize;
                let mut buf = vec![0u8; 2048];
                let r = catch_unwind(AssertUnwindSafe(|| m.serialize(&mut buf).ok()));
                let len = match r { Err(_) => { fail("C04/panic", "serialize panicked".into(), &b, &mut viol, &mut kinds); continue; } Ok(None) => { fail("C04/serialize-error", "serialize failed".into(), &b, &mut viol, &mut kinds); continue; } Ok(Some(l)) => l };
                if len != ml { fail("C04/length", format!("re-encoded length {} differs from the declared messageLength {}", len, ml), &b, &mut viol, &mut kinds); continue; }
                let out = &buf[..len];
                let mut bad = None;
                let mut only_rv = true;
                for (i, (x, y)) in out.iter().zip(canon.iter()).enumerate() {
                    if x != y {
                        if !rv.contains(&(i + 1)) { only_rv = false; }
                        if bad.is_none() { bad = Some((i, *x, *y)); }
                    }
                }
                if let Some((i, x, y)) = bad {
                    if only_rv { reserved_value += 1; fail("C04/reserved-value", format!("octet {} (a reserved value of an enumeration) re-encoded as {:#04x} instead of {:#04x}", i, x, y), &b, &mut viol, &mut kinds); }
                    else { fail("C04/field", format!("octet {} re-encoded as {:#04x}, the independent codec has {:#04x}", i, x, y), &b, &mut viol, &mut kinds); }
                }
                // decode again: equal message, identical bytes
                let out2 = out.to_vec();
                match FuzzMessage::deserialize(&out2) {
                    Err(_) => fail("C04/undecodable", "the re-encoded message does not decode".into(), &b, &mut viol, &mut kinds),
                    Ok(m2) => {
                        if m2 != m { fail("C04/unequal", "decoding the re-encoded message yields a different message".into(), &b, &mut viol, &mut kinds); }
                        let mut buf2 = vec![0u8; 2048];
                        match m2.serialize(&mut buf2) { Ok(l2) => if buf2[..l2] != out2[..] { fail("C04/not-idempotent", "encoding is not idempotent".into(), &b, &mut viol, &mut kinds); }, Err(_) => fail("C04/serialize-error", "second serialize failed".into(), &b, &mut viol, &mut kinds) }
                    }
                }
            }
        }
    }
    println!("{}", json!({"vectors": n, "accepted": accepted, "rejected": rejected, "reference_accepts_code_rejects": ref_accepts_code_rejects, "reserved_value_deviations": reserved_value,
                          "by_kind": kinds, "samples": samples, "violations": viol}));
}
