//! C12, bounded form of the liveness claims on the real code: a host model in
//! virtual time that arms and fires timers exactly as the returned actions
//! request (as statime-linux does). Each run starts with a random history
//! (Announces from a better master, BMCA runs, peer-delay exchanges and
//! faults, lost transmit timestamps, the master disappearing) and is continued
//! with (a) total silence or (b) a steadily announcing better master.
use serde_json::{json, Value};
use vh::collab::RecMutex;
use vh::world::{splitmix, Cfg, World};

struct Rnd(u64);
impl Rnd {
    fn next(&mut self) -> u64 { self.0 = splitmix(self.0); self.0 }
    fn below(&mut self, n: u64) -> u64 { self.next() % n }
}

const SEC: u64 = 1_000_000_000;
const KINDS: [&str; 5] = ["ann", "sync", "dreq", "rcpt", "filt"];

struct Host {
    w: World<RecMutex>,
    timers: Vec<[Option<u64>; 5]>,
    now: u64,
    hist: Vec<Value>,
    /// emission times per port: announce, sync, delay request
    ann: Vec<Vec<u64>>,
    sync: Vec<Vec<u64>>,
    dreq: Vec<Vec<u64>>,
    lose_ts: bool,
    calls: u64,
}

impl Host {
    fn absorb(&mut self, p: usize, acts: &Value, r: &mut Rnd) {
        let mut pending_ts: Vec<(u64, String)> = vec![];
        if let Some(a) = acts.as_array() {
            for x in a {
                match x["a"].as_str() {
                    Some("T") => {
                        let k = KINDS.iter().position(|k| *k == x["k"].as_str().unwrap()).unwrap();
                        self.timers[p][k] = Some(self.now + x["ns"].as_u64().unwrap());
                    }
                    Some("E") | Some("G") => {
                        match x["t"].as_str().unwrap_or("") {
                            "Announce" => self.ann[p].push(self.now),
                            "Sync" => self.sync[p].push(self.now),
                            "DelayReq" | "PdelayReq" => self.dreq[p].push(self.now),
                            _ => {}
                        }
                        if x["a"] == "E" && !(self.lose_ts && r.below(3) == 0) {
                            pending_ts.push((x["ctx"].as_u64().unwrap(), format!("tx_{}", r.below(16))));
                        }
                    }
                    _ => {}
                }
            }
        }
        for (c, t) in pending_ts {
            let ev = json!({"e": "ts", "p": p + 1, "c": c, "t": t});
            self.run(ev, r);
        }
    }
    fn run(&mut self, ev: Value, r: &mut Rnd) -> Value {
        self.calls += 1;
        let res = self.w.step(&ev);
        self.hist.push(json!({"at": self.now, "ev": ev}));
        if let Some(pend) = res.get("pend").and_then(|x| x.as_array()).cloned() {
            for (q, acts) in pend.iter().enumerate() {
                self.absorb(q, acts, r);
            }
        } else if let Some(out) = res.get("out").cloned() {
            let p = ev.get("p").and_then(|x| x.as_u64()).unwrap_or(1) as usize - 1;
            self.absorb(p, &out, r);
        }
        res
    }
    /// fire every timer that is due at or before `t` (in time order), then advance to t
    fn advance(&mut self, t: u64, r: &mut Rnd) {
        loop {
            let mut best: Option<(u64, usize, usize)> = None;
            for (p, ts) in self.timers.iter().enumerate() {
                for (k, d) in ts.iter().enumerate() {
                    if let Some(d) = d {
                        if *d <= t && best.map(|b| *d < b.0).unwrap_or(true) {
                            best = Some((*d, p, k));
                        }
                    }
                }
            }
            match best {
                None => break,
                Some((d, p, k)) => {
                    self.now = d.max(self.now);
                    self.timers[p][k] = None;
                    self.run(json!({"e": "t", "k": KINDS[k], "p": p + 1}), r);
                }
            }
        }
        self.now = t;
    }
    fn pst(&self, p: usize) -> &'static str { self.w.port_state_letter(p) }
}

fn scenario(seed: u64, idx: u64) -> Option<Value> {
    let mut r = Rnd(seed.wrapping_mul(7_777_777).wrapping_add(idx));
    let variant = idx % 4;
    let so = idx % 11 == 5;
    let ports = match variant {
        0 => json!([{"p2p": false}]),
        1 => json!([{"p2p": false}, {"p2p": false, "mo": true}]),
        2 => json!([{"p2p": true}]),
        _ => json!([{"p2p": false}, {"p2p": false}]),
    };
    let np = ports.as_array().unwrap().len();
    let cfg = json!({"own": {"id": 5, "so": so}, "ports": ports, "seed": seed + idx, "rng": r.next() | 1});
    let c = Cfg::from_json(&cfg);
    let mut h = Host { w: World::new(c.clone()), timers: vec![[None; 5]; np], now: 0, hist: vec![], ann: vec![vec![]; np], sync: vec![vec![]; np], dreq: vec![vec![]; np],
                       lose_ts: idx % 3 == 0, calls: 0 };
    let init = h.w.start();
    for p in 0..np { let a = init[p].clone(); h.absorb(p, &a, &mut r); }
    let steady = idx % 2 == 1;
    // ---- phase 1: random history, 0..20 s
    let t1 = r.below(20) * SEC;
    let mut seq = 100u64;
    let mut next_bmca = SEC / 2;
    let mut next_ann = r.below(SEC);
    let master_until = if r.below(3) == 0 { r.below(10) * SEC } else { u64::MAX };
    while h.now < t1 {
        let t = next_bmca.min(next_ann).min(t1);
        h.advance(t, &mut r);
        if h.now >= t1 { break; }
        if t == next_bmca {
            h.run(json!({"e": "bmca"}), &mut r);
            next_bmca += SEC;
        } else {
            if h.now < master_until {
                seq += 1;
                h.run(json!({"e": "ann", "p": 1, "src": [2, 1], "seq": seq, "g": [100, 248, 254, 65535, 128, 2], "steps": 0}), &mut r);
            }
            next_ann += SEC;
            // peer delay traffic and faults on P2P ports
            if variant == 2 {
                let snap = h.w.snapshot(0);
                if let Some(id) = snap["pd"]["id"].as_u64() {
                    let who = if r.below(4) == 0 { 8 } else { 7 };
                    h.run(json!({"e": "pdresp", "p": 1, "src": [who, 1], "seq": id, "req": [5, 1], "two": false, "w2": "w2_1", "c": "cr_1", "rx": "t4_1"}), &mut r);
                }
            }
        }
    }
    // ---- phase 2
    let horizon = 40 * SEC;
    let t2 = h.now;
    let deadline = t2 + (2 * 3 + 8) * SEC;
    let mut became: Vec<Option<u64>> = vec![None; np];
    let mut left_slave = false;
    let mut ever_faulty = vec![false; np];
    let end = t2 + horizon;
    while h.now < end {
        let t = next_bmca.min(next_ann).min(end);
        h.advance(t, &mut r);
        if h.now >= end { break; }
        if t == next_bmca {
            h.run(json!({"e": "bmca"}), &mut r);
            next_bmca += SEC;
        } else {
            if steady {
                seq += 1;
                h.run(json!({"e": "ann", "p": 1, "src": [2, 1], "seq": seq, "g": [100, 248, 254, 65535, 128, 2], "steps": 0}), &mut r);
            }
            next_ann += SEC;
        }
        for p in 0..np {
            if h.pst(p) == "F" { ever_faulty[p] = true; }
            let want = if steady && p == 0 { "S" } else { "M" };
            if h.pst(p) == want { if became[p].is_none() { became[p] = Some(h.now); } }
            else if became[p].is_some() && h.now > deadline { if want == "S" { left_slave = true; } became[p] = None; }
        }
    }
    let fail = |what: String, h: &Host| Some(json!({"kind": "hostsim", "seed": seed, "idx": idx, "what": what, "cfg": cfg, "steady": steady, "phase2_start": t2, "history": h.hist}));
    for p in 0..np {
        let st = h.pst(p);
        let mo = c.ports[p].mo;
        if st == "F" { continue; } // ports disabled by a peer-delay fault are excepted
        if steady {
            if p == 0 && !mo {
                if st != "S" || became[0].map(|t| t > deadline).unwrap_or(true) || left_slave {
                    return fail(format!("port 1 is {} (slave since {:?}) although a better master announced steadily for 40 intervals", st, became[0]), &h);
                }
                if !c.ports[0].p2p {
                    let times: Vec<u64> = h.dreq[0].iter().cloned().filter(|t| *t >= deadline).collect();
                    let mut last = deadline;
                    for t in times.iter().chain(std::iter::once(&end)) {
                        if t - last > 2 * SEC + 1 { return fail(format!("no Delay_Req from the slave port for {} ns", t - last), &h); }
                        last = *t;
                    }
                }
            }
        } else if so {
            if st == "M" { return fail(format!("slave-only instance has master port {}", p + 1), &h); }
        } else {
            if st != "M" || became[p].map(|t| t > deadline).unwrap_or(true) {
                // the recorded finding: P2P port recovered from faulty into listening with no receipt timer
                let known = c.ports[p].p2p && st == "L" && h.timers[p][3].is_none() && (ever_faulty[p] || h.hist.iter().any(|e| e["ev"]["e"] == "pdresp" && e["ev"]["src"][0] == 8));
                let what = format!("port {} is {} {} intervals into total silence", p + 1, st, (h.now - t2) / SEC);
                let mut v = fail(what, &h).unwrap();
                v.as_object_mut().unwrap().insert("known".into(), json!(if known { "orphan-recovered" } else { "" }));
                return Some(v);
            }
            // cadence: announces and syncs exactly one interval apart once master
            for (name, times) in [("Announce", &h.ann[p]), ("Sync", &h.sync[p])] {
                let ts: Vec<u64> = times.iter().cloned().filter(|t| *t >= deadline).collect();
                if ts.len() < 20 { return fail(format!("port {} emitted only {} {} messages in the last {} intervals", p + 1, ts.len(), name, (end - deadline) / SEC), &h); }
                for w in ts.windows(2) {
                    if w[1] - w[0] != SEC { return fail(format!("port {}: {} messages {} ns apart instead of one interval", p + 1, name, w[1] - w[0]), &h); }
                }
            }
        }
    }
    None
}

fn main() {
    vh::quiet_panics();
    let args: Vec<String> = std::env::args().collect();
    let mut runs = 100u64;
    let mut seed = 1u64;
    let mut dir = String::from(".");
    let mut i = 1;
    while i < args.len() {
        match args[i].as_str() {
            "--runs" => { runs = args[i + 1].parse().unwrap(); i += 1; }
            "--seed" => { seed = args[i + 1].parse().unwrap(); i += 1; }
            "--replay-dir" => { dir = args[i + 1].clone(); i += 1; }
            _ => {}
        }
        i += 1;
    }
    let mut viol = vec![];
    let mut known = 0u64;
    for idx in 0..runs {
        if let Some(d) = scenario(seed, idx) {
            let k = d.get("known").and_then(|x| x.as_str()).unwrap_or("").to_string();
            if !k.is_empty() { known += 1; }
            if viol.len() < 8 {
                let path = format!("{}/hostsim-{}.json", dir, viol.len());
                std::fs::create_dir_all(&dir).ok();
                std::fs::write(&path, serde_json::to_string_pretty(&d).unwrap()).ok();
                viol.push(json!({"detail": d["what"], "replay": path, "known": k}));
            }
        }
    }
    println!("{}", json!({"runs": runs, "known_orphan_recovered": known, "violations": viol}));
}
