//! C17 (iii): real threads over the real `std::sync::RwLock` implementation of
//! PtpInstanceStateMutex. A slave port receives Announces from its parent that
//! alternate between two completely different contents while a master port of
//! the same instance emits Announces, observers take data set snapshots and a
//! settings thread changes the clock quality. Every snapshot and every emitted
//! Announce must show one content, never a mixture; the run must terminate.
use std::sync::atomic::{AtomicBool, AtomicU64, Ordering};
use std::sync::RwLock;

use rand::SeedableRng;
use serde_json::json;
use statime::config::{AcceptAnyMaster, ClockIdentity, ClockQuality, DelayMechanism, InstanceConfig, PortConfig, PtpMinorVersion, SdoId, TimePropertiesDS, TimeSource};
use statime::filters::BasicFilter;
use statime::port::{NoForwardedTLVs, PortAction};
use statime::time::{Duration, Interval, Time};
use statime::{Clock, PtpInstance, PtpInstanceState};
use vh::wire::{self, Ann, Body, Frame, Hdr, PortId};

struct NullClock;
impl Clock for NullClock {
    type Error = ();
    fn now(&self) -> Time { Time::from_secs(1_700_000_000) }
    fn step_clock(&mut self, _: Duration) -> Result<Time, ()> { Ok(self.now()) }
    fn set_frequency(&mut self, _: f64) -> Result<Time, ()> { Ok(self.now()) }
    fn set_properties(&mut self, _: &TimePropertiesDS) -> Result<(), ()> { Ok(()) }
}

#[derive(Clone, Copy, PartialEq, Debug)]
struct Content { gm: [u8; 8], p1: u8, class: u8, acc: u8, var: u16, p2: u8, steps: u16, utc: i16, f1: u8, src: u8 }
const A: Content = Content { gm: [0x11; 8], p1: 10, class: 6, acc: 0x21, var: 100, p2: 20, steps: 3, utc: 37, f1: 0x3c | 0x01, src: 0x20 };
const B: Content = Content { gm: [0x22; 8], p1: 200, class: 187, acc: 0x31, var: 65000, p2: 220, steps: 77, utc: -5, f1: 0x04 | 0x02, src: 0x50 };

fn announce(c: &Content, seq: u16) -> Vec<u8> {
    let mut h = Hdr::new(wire::T_ANNOUNCE, PortId { clock: [0x02; 8], port: 1 }, seq);
    h.flags[1] = c.f1;
    Frame::new(h, Body::Announce(Ann { origin: Default::default(), utc_offset: c.utc, p1: c.p1, class: c.class, accuracy: c.acc, variance: c.var, p2: c.p2, gm: c.gm, steps: c.steps, time_source: c.src })).encode()
}

fn main() {
    let args: Vec<String> = std::env::args().collect();
    let mut iters = 20000u64;
    let mut dir = String::from(".");
    let mut i = 1;
    while i < args.len() {
        match args[i].as_str() {
            "--iters" => { iters = args[i + 1].parse().unwrap(); i += 1; }
            "--replay-dir" => { dir = args[i + 1].clone(); i += 1; }
            _ => {}
        }
        i += 1;
    }
    let cfg = InstanceConfig { clock_identity: ClockIdentity([0x05; 8]), priority_1: 250, priority_2: 250, domain_number: 0, sdo_id: SdoId::try_from(0).unwrap(), slave_only: false, path_trace: false, clock_quality: ClockQuality::default() };
    let inst: PtpInstance<BasicFilter, RwLock<PtpInstanceState>> = PtpInstance::new(cfg, TimePropertiesDS::new_arbitrary_time(false, false, TimeSource::InternalOscillator));
    let pc = || PortConfig { acceptable_master_list: AcceptAnyMaster, delay_mechanism: DelayMechanism::E2E { interval: Interval::from_log_2(0) }, announce_interval: Interval::from_log_2(0),
                             announce_receipt_timeout: 3, sync_interval: Interval::from_log_2(0), master_only: false, delay_asymmetry: Duration::ZERO, minor_ptp_version: PtpMinorVersion::One };
    let mut p1 = inst.add_port(pc(), 0.25, NullClock, rand::rngs::StdRng::seed_from_u64(1));
    let mut p2 = inst.add_port(pc(), 0.25, NullClock, rand::rngs::StdRng::seed_from_u64(2));
    let (mut r1, a1) = p1.end_bmca(); drop(a1);
    let (mut r2, a2) = p2.end_bmca(); drop(a2);
    for s in 0..2u16 { let f = announce(&A, s); let _ = r1.handle_general_receive(&f).count(); }
    p1 = r1.start_bmca(); p2 = r2.start_bmca();
    inst.bmca(&mut [&mut p1, &mut p2]);
    let (mut r1, a1) = p1.end_bmca(); drop(a1);
    let (mut r2, a2) = p2.end_bmca(); drop(a2);
    assert!(r1.is_steering(), "setup: port 1 must be slave");
    let _ = r2.handle_announce_receipt_timer().count();
    assert!(r2.is_master(), "setup: port 2 must be master");

    let done = AtomicBool::new(false);
    let mixed = AtomicU64::new(0);
    let snapshots = AtomicU64::new(0);
    let announces = AtomicU64::new(0);
    let first_mix: RwLock<Option<String>> = RwLock::new(None);
    let is_one = |gm: [u8; 8], p1: u8, class: u8, acc: u8, var: u16, p2: u8| -> bool {
        [A, B].iter().any(|c| c.gm == gm && c.p1 == p1 && c.class == class && c.acc == acc && c.var == var && c.p2 == p2)
    };
    let finished = std::sync::mpsc::channel::<()>();
    let tx = finished.0.clone();
    let done = &done;
    std::thread::scope(|s| {
        // slave port: parent Announces alternating A / B
        s.spawn(|| {
            let mut seq = 10u16;
            for n in 0..iters {
                let f = announce(if n % 2 == 0 { &B } else { &A }, seq);
                seq = seq.wrapping_add(1);
                let _ = r1.handle_general_receive(&f).count();
            }
            done.store(true, Ordering::SeqCst);
        });
        // master port of the same instance: every emitted Announce shows one content
        s.spawn(|| {
            while !done.load(Ordering::SeqCst) {
                let mut data = vec![];
                for a in r2.handle_announce_timer(&mut NoForwardedTLVs) {
                    if let PortAction::SendGeneral { data: d, .. } = a { data = d.to_vec(); }
                }
                if let Ok(f) = Frame::decode(&data) {
                    if let Body::Announce(a) = &f.body {
                        announces.fetch_add(1, Ordering::Relaxed);
                        let body_ok = is_one(a.gm, a.p1, a.class, a.accuracy, a.variance, a.p2);
                        let c = if a.gm == A.gm { A } else { B };
                        let rest_ok = a.steps == c.steps + 1 && f.hdr.flags[1] == c.f1 && a.time_source == c.src && (c.f1 & 0x04 == 0 || a.utc_offset == c.utc);
                        if !(body_ok && rest_ok) {
                            mixed.fetch_add(1, Ordering::Relaxed);
                            let mut g = first_mix.write().unwrap();
                            if g.is_none() { *g = Some(format!("emitted Announce mixes two updates: {:?} flags {:#x}", a, f.hdr.flags[1])); }
                        }
                    }
                }
            }
        });
        // observers
        for _ in 0..2 {
            s.spawn(|| {
                while !done.load(Ordering::SeqCst) {
                    let p = inst.parent_ds();
                    snapshots.fetch_add(1, Ordering::Relaxed);
                    let q = p.grandmaster_clock_quality;
                    if !is_one(p.grandmaster_identity.0, p.grandmaster_priority_1, q.clock_class, q.clock_accuracy.to_primitive(), q.offset_scaled_log_variance, p.grandmaster_priority_2) {
                        mixed.fetch_add(1, Ordering::Relaxed);
                        let mut g = first_mix.write().unwrap();
                        if g.is_none() { *g = Some(format!("parent data set snapshot mixes two updates: {:?}", p)); }
                    }
                    let t = inst.time_properties_ds();
                    let ok = [A, B].iter().any(|c| (t.current_utc_offset.is_some() == (c.f1 & 0x04 != 0)) && t.time_source.to_primitive() == c.src && t.time_traceable == (c.f1 & 0x10 != 0)
                                               && t.frequency_traceable == (c.f1 & 0x20 != 0) && t.ptp_timescale == (c.f1 & 0x08 != 0) && (t.current_utc_offset.is_none() || t.current_utc_offset == Some(c.utc)));
                    if !ok {
                        mixed.fetch_add(1, Ordering::Relaxed);
                        let mut g = first_mix.write().unwrap();
                        if g.is_none() { *g = Some(format!("time properties snapshot mixes two updates: {:?}", t)); }
                    }
                    let _ = inst.current_ds(None);
                    let _ = inst.default_ds();
                }
            });
        }
        // settings
        s.spawn(|| {
            let mut k = 0u8;
            while !done.load(Ordering::SeqCst) {
                k = k.wrapping_add(1);
                inst.set_clock_quality(ClockQuality { clock_class: 200 + (k % 50), ..ClockQuality::default() });
                std::thread::yield_now();
            }
        });
        // watchdog on the main thread of the scope
        s.spawn(move || {
            let t0 = std::time::Instant::now();
            while !done.load(Ordering::SeqCst) {
                if t0.elapsed().as_secs() > 120 {
                    println!("{}", json!({"iters": iters, "violations": [{"detail": "threads did not finish within 120 s (deadlock)", "replay": ""}]}));
                    std::process::exit(0);
                }
                std::thread::sleep(std::time::Duration::from_millis(50));
            }
            let _ = tx.send(());
        });
    });
    let mut viol = vec![];
    if mixed.load(Ordering::SeqCst) > 0 {
        let path = format!("{}/lockstress-0.json", dir);
        std::fs::create_dir_all(&dir).ok();
        let d = first_mix.read().unwrap().clone().unwrap_or_default();
        std::fs::write(&path, serde_json::to_string_pretty(&json!({"kind": "lockstress", "detail": d, "mixed": mixed.load(Ordering::SeqCst)})).unwrap()).ok();
        viol.push(json!({"detail": d, "replay": path}));
    }
    println!("{}", json!({"iters": iters, "snapshots": snapshots.load(Ordering::SeqCst), "announces_emitted": announces.load(Ordering::SeqCst), "mixed": mixed.load(Ordering::SeqCst), "violations": viol}));
}
