//! C01: N real PtpInstances wired by an in-memory network.
//!
//! --replay : executes the scheduling decisions of specs/Network.tla (edge
//!            stream from TLC) on the real instances - the Announce octets a
//!            real master port emits are what the real receiving ports parse -
//!            and compares every node's port states, parent, grandmaster and
//!            stepsRemoved with the model after every edge.
//! --free   : a seeded event-queue simulation with real-valued delays, BMCA
//!            phases, the real timer durations requested by the ports (rng
//!            jitter included) and one fault applied after convergence; the
//!            global state after every BMCA round is logged as ndjson for
//!            specs/TraceNet.tla (TreeOK once quiet, no flapping).
use std::collections::BTreeMap;
use std::io::{BufRead, Write};

use serde_json::{json, Value};
use vh::collab::RecMutex;
use vh::world::{splitmix, Cfg, World};

struct Net {
    worlds: Vec<World<RecMutex>>,
    topo: Vec<Vec<(usize, usize)>>, // segments of (node, port), 1-based
    cut: Vec<bool>,
    silent: Vec<bool>,
    inflight: BTreeMap<((usize, usize), (usize, usize)), String>,
}

fn node_cfg(n: &Value, id: usize, timeout: u64, rng: u64) -> Value {
    let np = n["nports"].as_u64().unwrap_or(1);
    let ports: Vec<Value> = (0..np).map(|_| json!({"p2p": false, "timeout": timeout})).collect();
    json!({"own": {"id": id, "p1": n["p1"], "p2": n.get("p2").cloned().unwrap_or(json!(128)), "class": n["class"], "so": n["so"]}, "ports": ports, "seed": 1, "rng": rng,
           // all identities differ in the same octet so that their order is the order of the abstract ids
           })
}

impl Net {
    fn new(cfg: &Value, rngseed: u64) -> Net {
        let nodes = cfg["nodes"].as_array().unwrap();
        let timeout = cfg["timeout"].as_u64().unwrap_or(2);
        let mut worlds = vec![];
        for (i, n) in nodes.iter().enumerate() {
            let c = node_cfg(n, i + 1, timeout, if rngseed == 0 { 0x8000_0000_0000_0000 } else { splitmix(rngseed + i as u64) | 1 });
            let mut w: World<RecMutex> = World::new(Cfg::from_json(&c));
            w.keep_bytes = true;
            w.start();
            worlds.push(w);
        }
        let topo: Vec<Vec<(usize, usize)>> = cfg["topo"].as_array().unwrap().iter()
            .map(|s| s.as_array().unwrap().iter().map(|p| (p[0].as_u64().unwrap() as usize, p[1].as_u64().unwrap() as usize)).collect()).collect();
        let ns = topo.len();
        let nn = nodes.len();
        // segments that are down when the network starts (indices into topo)
        let mut cut = vec![false; ns];
        if let Some(c0) = cfg.get("cut0").and_then(|c| c.as_array()) { for i in c0 { cut[i.as_u64().unwrap() as usize] = true; } }
        Net { worlds, topo, cut, silent: vec![false; nn], inflight: BTreeMap::new() }
    }
    fn peers(&self, p: (usize, usize)) -> Vec<(usize, usize)> {
        let mut v = vec![];
        for (i, s) in self.topo.iter().enumerate() {
            if !self.cut[i] && s.contains(&p) {
                for q in s { if *q != p && !self.silent[q.0 - 1] { v.push(*q); } }
            }
        }
        v
    }
    /// the other live ports of p's segments, with the index of the segment they share
    fn peers_seg(&self, p: (usize, usize)) -> Vec<((usize, usize), usize)> {
        let mut v = vec![];
        for (i, s) in self.topo.iter().enumerate() {
            if !self.cut[i] && s.contains(&p) {
                for q in s { if *q != p && !self.silent[q.0 - 1] { v.push((*q, i)); } }
            }
        }
        v
    }
    /// announce timer of port p: returns (result, emitted frame hex if any)
    fn announce(&mut self, p: (usize, usize)) -> (Value, Option<String>) {
        let r = self.worlds[p.0 - 1].step(&json!({"e": "t", "k": "ann", "p": p.1}));
        let hex = r["out"].as_array().and_then(|o| o.iter().find(|a| a["t"] == "Announce")).and_then(|a| a["hex"].as_str()).map(|s| s.to_string());
        (r, hex)
    }
    fn deliver(&mut self, dst: (usize, usize), hex: &str) -> Value {
        self.worlds[dst.0 - 1].step(&json!({"e": "raw", "p": dst.1, "chan": "g", "hex": hex}))
    }
    fn view(&self) -> Value {
        let mut pst = vec![]; let mut ppi = vec![]; let mut gm = vec![]; let mut gmid = vec![]; let mut steps = vec![]; let mut so = vec![]; let mut q = vec![];
        for w in &self.worlds {
            let pr = w.project(&json!({}));
            pst.push(pr["pst"].clone());
            ppi.push(pr["ppi"].clone());
            let g = &pr["gm"];
            gm.push(json!([g["p1"], g["class"], g["acc"], g["var"], g["p2"], g["id"]]));
            gmid.push(g["id"].clone());
            steps.push(pr["steps"].clone());
            so.push(pr["dds"]["so"].clone());
            q.push(json!({"class": pr["dds"]["class"], "acc": pr["dds"]["acc"], "var": pr["dds"]["var"]}));
        }
        json!({"pst": pst, "ppi": ppi, "gm": gm, "gmid": gmid, "steps": steps, "so": so, "q": q})
    }
}

fn replay(cfg: &Value, dir: &str) {
    let mut n = 0u64;
    let mut events = 0u64;
    let mut viol: Vec<Value> = vec![];
    let mut mism: BTreeMap<String, u64> = BTreeMap::new();
    let mut samples = vec![];
    let mut kinds: BTreeMap<String, u64> = BTreeMap::new();   // last event of every edge, by kind
    for line in std::io::stdin().lock().lines() {
        let line = line.unwrap();
        let s = match line.strip_prefix("<<\"E\", ").and_then(|s| s.strip_suffix(">>")) { Some(s) => s, None => { eprintln!("{}", line); continue; } };
        let inner: String = serde_json::from_str(s).unwrap();
        let e: Value = serde_json::from_str(&inner).unwrap();
        let hist = e["hist"].as_array().unwrap();
        if hist.is_empty() { continue; }
        n += 1;
        let mut net = Net::new(cfg, 0);
        let mut bad: Option<String> = None;
        if let Some(last) = hist.last() { *kinds.entry(last["e"].as_str().unwrap_or("?").to_string()).or_default() += 1; }
        for ev in hist {
            events += 1;
            let r = match ev["e"].as_str().unwrap() {
                "ann" => {
                    let p = (ev["n"].as_u64().unwrap() as usize, ev["p"].as_u64().unwrap() as usize);
                    let (r, hex) = net.announce(p);
                    match hex {
                        Some(h) => { for q in net.peers(p) { net.inflight.insert((p, q), h.clone()); } }
                        None => { bad = Some(format!("the model lets port {:?} announce but the real port emitted no Announce", p)); }
                    }
                    r
                }
                "dlv" => {
                    let s = (ev["src"][0].as_u64().unwrap() as usize, ev["src"][1].as_u64().unwrap() as usize);
                    let d = (ev["dst"][0].as_u64().unwrap() as usize, ev["dst"][1].as_u64().unwrap() as usize);
                    match net.inflight.remove(&(s, d)) { Some(h) => net.deliver(d, &h), None => { bad = Some(format!("no frame in flight from {:?} to {:?}", s, d)); json!({}) } }
                }
                "bmca" => net.worlds[ev["n"].as_u64().unwrap() as usize - 1].step(&json!({"e": "bmca"})),
                "to" => net.worlds[ev["n"].as_u64().unwrap() as usize - 1].step(&json!({"e": "t", "k": "rcpt", "p": ev["p"]})),
                "quality" => net.worlds[ev["n"].as_u64().unwrap() as usize - 1].step(&json!({"e": "q", "q": ev["q"]})),
                "cut" => { let seg: Vec<(usize, usize)> = ev["seg"].as_array().unwrap().iter().map(|p| (p[0].as_u64().unwrap() as usize, p[1].as_u64().unwrap() as usize)).collect();
                           for (i, s) in net.topo.iter().enumerate() { let mut a = s.clone(); a.sort(); let mut b = seg.clone(); b.sort(); if a == b { net.cut[i] = true; } } json!({}) }
                "restore" => { let seg: Vec<(usize, usize)> = ev["seg"].as_array().unwrap().iter().map(|p| (p[0].as_u64().unwrap() as usize, p[1].as_u64().unwrap() as usize)).collect();
                           for (i, s) in net.topo.iter().enumerate() { let mut a = s.clone(); a.sort(); let mut b = seg.clone(); b.sort(); if a == b { net.cut[i] = false; } } json!({}) }
                "silence" => { net.silent[ev["n"].as_u64().unwrap() as usize - 1] = true; json!({}) }
                _ => json!({}),
            };
            if r.get("panic").is_some() { bad = Some(format!("panic: {}", r["panic"])); }
            if bad.is_some() { break; }
        }
        let view = net.view();
        if bad.is_none() {
            for k in ["pst", "ppi", "gmid", "gm", "steps"] {
                if view[k] != e["exp"][k] { bad = Some(format!("{}: model {} real {}", k, e["exp"][k], view[k])); *mism.entry(k.to_string()).or_default() += 1; break; }
            }
        }
        if samples.len() < 3 && hist.len() > 12 && n % 101 == 0 { samples.push(json!({"hist_tail": hist[hist.len() - 6..].to_vec(), "observed": {"pst": view["pst"], "ppi": view["ppi"], "steps": view["steps"]}})); }
        if let Some(b) = bad {
            if viol.len() < 5 {
                let path = format!("{}/netsim-{}.json", dir, viol.len());
                std::fs::create_dir_all(dir).ok();
                std::fs::write(&path, serde_json::to_string_pretty(&json!({"kind": "netsim", "cfg": cfg, "hist": hist, "exp": e["exp"], "act": view, "detail": b})).unwrap()).ok();
                viol.push(json!({"detail": b, "replay": path}));
            }
        }
    }
    println!("{}", json!({"edges": n, "events": events, "last_event_kinds": kinds, "mismatch_by_field": mism, "samples": samples, "violations": viol}));
}

const SEC: u64 = 1_000_000_000;

fn free(cfg: &Value, seed: u64, trace: &str, horizon_s: u64) {
    let mut r = seed.wrapping_mul(0x9e3779b97f4a7c15) | 1;
    let mut nx = move || { r = splitmix(r); r };
    let mut net = Net::new(cfg, seed);
    let nn = net.worlds.len();
    // per port timers: ann, sync(ignored), rcpt; per node bmca phase
    let mut timers: BTreeMap<(usize, usize, u8), u64> = BTreeMap::new();
    let mut bmca_at: Vec<u64> = (0..nn).map(|_| nx() % SEC).collect();
    // messages in flight: (arrival, dst, hex, event channel?)
    let mut msgs: Vec<(u64, (usize, usize), String, bool)> = vec![];
    // Sync / Delay traffic (cfg "sync": true): every node's clock is off by a fixed theta (ns), every segment has a fixed symmetric
    // delay (ns); the recording filter then has to see offset = theta(slave) - theta(parent) and delay = the segment's, exactly
    let sync_on = cfg["sync"].as_bool().unwrap_or(false);
    let theta: Vec<i64> = (0..nn).map(|i| if sync_on { (splitmix(seed.wrapping_mul(77).wrapping_add(i as u64)) % 2_000_001) as i64 - 1_000_000 } else { 0 }).collect();
    let dseg: Vec<u64> = (0..net.topo.len()).map(|i| 1_000 + splitmix(seed.wrapping_mul(131).wrapping_add(i as u64)) % 200_000).collect();
    const BASE_NS: i128 = 1_700_000_000_000_000_000;
    let theta_c = theta.clone();
    let local = move |n: usize, t: u64| -> String { format!("={}", ((BASE_NS + t as i128 + theta_c[n] as i128) as u128) << 32) };
    let max_delay = cfg["max_delay_ms"].as_u64().unwrap_or(50) * 1_000_000;
    let absorb = |net: &Net, p: (usize, usize), acts: &Value, now: u64, timers: &mut BTreeMap<(usize, usize, u8), u64>| {
        let _ = net;
        if let Some(a) = acts.as_array() {
            for x in a {
                if x["a"] == "T" {
                    let k = match x["k"].as_str().unwrap() { "ann" => 0u8, "rcpt" => 2, "sync" if sync_on => 1, "dreq" if sync_on => 3, _ => 9 };
                    if k != 9 { timers.insert((p.0, p.1, k), now + x["ns"].as_u64().unwrap()); }
                }
            }
        }
    };
    // initial receipt timers (Port::new): re-create by reading the real initial actions is not possible after start();
    // the harness's World::start consumed them, so ask each port for its expected initial duration
    for n in 0..nn { for p in 0..net.worlds[n].ports.len() { let d = net.worlds[n].expected_rcpt(p).as_nanos() as u64; timers.insert((n + 1, p + 1, 2), d); } }
    let mut f = std::io::BufWriter::new(std::fs::File::create(trace).unwrap());
    let nodes = cfg["nodes"].as_array().unwrap();
    writeln!(f, "{}", json!({"e": "cfg", "n": nn, "prio": nodes.iter().map(|n| n["p1"].clone()).collect::<Vec<_>>(),
                             "prio2": nodes.iter().map(|n| n.get("p2").cloned().unwrap_or(json!(128))).collect::<Vec<_>>(), "topo": cfg["topo"], "k": cfg["quiet_rounds"].as_u64().unwrap_or(12),
                             "theta": theta, "dseg": dseg})).unwrap();
    let mut meas_n = 0u64;
    // measurements the recording filter of node n received in the step just taken
    macro_rules! log_meas {
        ($n:expr) => {{
            if sync_on {
                let pr = net.worlds[$n].project(&json!({}));
                for m in pr["flt"].as_array().unwrap() {
                    if m["k"] != "meas" { continue; }
                    let p = m["p"].as_u64().unwrap() as usize;
                    let bits = |v: &Value| -> Option<i128> { v.as_str().map(|s| s.parse::<i128>().unwrap()) };
                    let off = bits(&m["off"]); let dly = bits(&m["dly"]);
                    let seg = net.topo.iter().position(|s| s.contains(&($n + 1, p))).unwrap_or(0);
                    meas_n += 1;
                    writeln!(f, "{}", json!({"e": "meas", "n": $n + 1, "p": p, "pst": pr["pst"][p - 1], "parent": pr["ppi"],
                        "has_off": off.is_some(), "off": off.map(|b| (b >> 32) as i64).unwrap_or(0), "off_exact": off.map(|b| b & 0xffff_ffff == 0).unwrap_or(true),
                        "has_dly": dly.is_some(), "dly": dly.map(|b| (b >> 32) as i64).unwrap_or(0), "dly_exact": dly.map(|b| b & 0xffff_ffff == 0).unwrap_or(true), "seg": seg + 1})).unwrap();
                }
            }
        }};
    }
    let mut now = 0u64;
    let mut last_disturb = 0u64;
    let fault_at = cfg["fault_at_s"].as_u64().map(|s| s * SEC);
    let mut fault_done = false;
    let end = horizon_s * SEC;
    let mut rounds = 0u64;
    let mut masters_two = 0u64;
    while now < end {
        // next event
        let mut best: (u64, u8, usize, usize, usize) = (u64::MAX, 0, 0, 0, 0); // time, kind(0 timer,1 msg,2 bmca,3 fault), a, b, c
        for ((n, p, k), t) in timers.iter() { if !net.silent[*n - 1] && *t < best.0 { best = (*t, 0, *n, *p, *k as usize); } }
        for (i, m) in msgs.iter().enumerate() { if m.0 < best.0 || (m.0 == best.0 && best.1 == 1 && i < best.2) { best = (m.0, 1, i, 0, 0); } }
        for n in 0..nn { if !net.silent[n] && bmca_at[n] < best.0 { best = (bmca_at[n], 2, n, 0, 0); } }
        if let Some(fa) = fault_at { if !fault_done && fa < best.0 { best = (fa, 3, 0, 0, 0); } }
        if best.0 == u64::MAX || best.0 > end { break; }
        now = best.0;
        match best.1 {
            0 => {
                let p = (best.2, best.3);
                timers.remove(&(best.2, best.3, best.4 as u8));
                if best.4 == 0 {
                    let (res, hex) = net.announce(p);
                    absorb(&net, p, &res["out"], now, &mut timers);
                    if let Some(h) = hex { for q in net.peers(p) { msgs.push((now + 100_000 + nx() % max_delay, q, h.clone(), false)); } }
                } else if best.4 == 1 || best.4 == 3 {
                    // sync timer of a master port / delay request timer of a slave port: the event frame leaves now, its transmit
                    // timestamp (the sender's local time) is reported at once; a Follow_Up travels just behind its Sync
                    let kind = if best.4 == 1 { "sync" } else { "dreq" };
                    let res = net.worlds[p.0 - 1].step(&json!({"e": "t", "k": kind, "p": p.1}));
                    absorb(&net, p, &res["out"], now, &mut timers);
                    log_meas!(p.0 - 1);
                    for a in res["out"].as_array().cloned().unwrap_or_default() {
                        if a["a"] == "E" {
                            let hex = a["hex"].as_str().unwrap().to_string();
                            for (q, si) in net.peers_seg(p) { msgs.push((now + dseg[si], q, hex.clone(), true)); }
                            let r2 = net.worlds[p.0 - 1].step(&json!({"e": "ts", "p": p.1, "c": a["ctx"], "t": local(p.0 - 1, now)}));
                            absorb(&net, p, &r2["out"], now, &mut timers);
                            log_meas!(p.0 - 1);
                            for g in r2["out"].as_array().cloned().unwrap_or_default() {
                                if g["a"] == "G" { let h2 = g["hex"].as_str().unwrap().to_string(); for (q, si) in net.peers_seg(p) { msgs.push((now + dseg[si] + 1_000, q, h2.clone(), false)); } }
                            }
                        }
                    }
                } else {
                    let res = net.worlds[p.0 - 1].step(&json!({"e": "t", "k": "rcpt", "p": p.1}));
                    absorb(&net, p, &res["out"], now, &mut timers);
                }
            }
            1 => {
                let (_, dst, hex, ev) = msgs.swap_remove(best.2);
                if !net.silent[dst.0 - 1] {
                    let res = if ev { net.worlds[dst.0 - 1].step(&json!({"e": "raw", "p": dst.1, "chan": "e", "hex": hex, "rx": local(dst.0 - 1, now)})) } else { net.deliver(dst, &hex) };
                    absorb(&net, dst, &res["out"], now, &mut timers);
                    log_meas!(dst.0 - 1);
                    if sync_on {
                        // a master answers a Delay_Req: the Delay_Resp goes back over the same segment
                        for g in res["out"].as_array().cloned().unwrap_or_default() {
                            if g["a"] == "G" && g["t"] == "DelayResp" { let h2 = g["hex"].as_str().unwrap().to_string(); for (q, si) in net.peers_seg(dst) { msgs.push((now + dseg[si], q, h2.clone(), false)); } }
                        }
                    }
                }
            }
            2 => {
                let n = best.2;
                let res = net.worlds[n].step(&json!({"e": "bmca"}));
                if let Some(pend) = res["pend"].as_array() { for (p, acts) in pend.iter().enumerate() { absorb(&net, (n + 1, p + 1), acts, now, &mut timers); } }
                bmca_at[n] += SEC + (nx() % 2_000_000) - 1_000_000;   // +-1 ms of drift per round
                if Some(n) == (0..nn).find(|i| !net.silent[*i]) {
                    rounds += 1;
                    let v = net.view();
                    let quiet = (now - last_disturb) / SEC;
                    let alive: Vec<usize> = (1..=nn).filter(|i| !net.silent[*i - 1]).collect();
                    let segs: Vec<&Vec<(usize, usize)>> = net.topo.iter().enumerate().filter(|(i, _)| !net.cut[*i]).map(|(_, s)| s).collect();
                    writeln!(f, "{}", json!({"e": "state", "t": now / SEC, "quiet": quiet, "pst": v["pst"], "ppi": v["ppi"], "gm": v["gm"], "steps": v["steps"], "so": v["so"], "q": v["q"],
                                             "alive": alive, "segs": segs.iter().map(|s| s.iter().map(|p| json!([p.0, p.1])).collect::<Vec<_>>()).collect::<Vec<_>>()})).unwrap();
                    for s in &segs { if s.iter().filter(|p| v["pst"][p.0 - 1][p.1 - 1] == "M").count() > 1 { masters_two += 1; } }
                }
            }
            _ => {
                fault_done = true;
                last_disturb = now;
                match cfg["fault"]["kind"].as_str().unwrap_or("") {
                    "cut" => { net.cut[cfg["fault"]["seg"].as_u64().unwrap() as usize] = true; }
                    "restore" => { net.cut[cfg["fault"]["seg"].as_u64().unwrap() as usize] = false; }
                    "silence" => { net.silent[cfg["fault"]["n"].as_u64().unwrap() as usize - 1] = true; }
                    "quality" => { let n = cfg["fault"]["n"].as_u64().unwrap() as usize - 1; net.worlds[n].step(&json!({"e": "q", "q": {"class": 6, "acc": 33, "var": 100}})); }
                    _ => {}
                }
                writeln!(f, "{}", json!({"e": "fault", "t": now / SEC, "fault": cfg["fault"]})).unwrap();
            }
        }
    }
    f.flush().unwrap();
    println!("{}", json!({"rounds": rounds, "segment_rounds_with_two_masters": masters_two, "measurements": meas_n}));
}

fn main() {
    vh::quiet_panics();
    let args: Vec<String> = std::env::args().collect();
    let mut mode = "replay".to_string();
    let mut cfgp = String::new();
    let mut dir = ".".to_string();
    let mut seed = 1u64;
    let mut trace = String::new();
    let mut horizon = 120u64;
    let mut i = 1;
    while i < args.len() {
        match args[i].as_str() {
            "--replay" => mode = "replay".into(),
            "--free" => mode = "free".into(),
            "--cfg" => { cfgp = args[i + 1].clone(); i += 1; }
            "--replay-dir" => { dir = args[i + 1].clone(); i += 1; }
            "--seed" => { seed = args[i + 1].parse().unwrap(); i += 1; }
            "--trace" => { trace = args[i + 1].clone(); i += 1; }
            "--horizon" => { horizon = args[i + 1].parse().unwrap(); i += 1; }
            _ => {}
        }
        i += 1;
    }
    let cfg: Value = serde_json::from_str(&std::fs::read_to_string(&cfgp).unwrap()).unwrap();
    if mode == "replay" { replay(&cfg, &dir); } else { free(&cfg, seed, &trace, horizon); }
}
