//! The metrics exporter of /repo: identical to statime-linux/bin/statime-metrics-exporter.rs
//! (a wrapper around the library's `metrics_exporter_main`), built here so that the checks
//! always run the exporter code of /repo's working tree.
#[tokio::main]
async fn main() -> Result<(), Box<dyn std::error::Error>> {
    statime_linux::metrics_exporter_main().await
}
