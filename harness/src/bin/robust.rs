//! C03: randomised call sequences with boundary-class values and mutated /
//! random frames of up to 2048 octets on every port configuration; any unwind
//! or poisoned lock is a violation. Replay files are in the format of
//! `replay --one`.
use serde_json::{json, Value};
use vh::collab::{lock_log_take, RecMutex};
use vh::world::{splitmix, Cfg, World};

struct Rnd(u64);
impl Rnd {
    fn next(&mut self) -> u64 { self.0 = splitmix(self.0); self.0 }
    fn below(&mut self, n: u64) -> u64 { self.next() % n }
    fn pick<'a>(&mut self, xs: &[&'a str]) -> &'a str { xs[self.below(xs.len() as u64) as usize] }
}

fn ch<T: Copy>(r: &mut Rnd, xs: &[T]) -> T { xs[r.below(xs.len() as u64) as usize] }

const VT: [&str; 8] = ["", "#zero", "#one", "#sub", "#max63", "#max48", "#sec", "#secm"];
const VC: [&str; 8] = ["", "#min", "#max", "#neg1", "#pos1", "#sub1", "#nsub1", "#zero"];

fn cfgs(i: u64) -> Value {
    let ports = match i % 6 {
        0 => json!([{"p2p": false, "asym": "asym"}]),
        1 => json!([{"p2p": true}]),
        2 => json!([{"p2p": false}, {"p2p": false, "mo": true}]),
        3 => json!([{"p2p": false, "aml": [2, 9]}, {"p2p": true}]),
        4 => json!([{"p2p": false, "log_ann": -3, "log_sync": -7, "log_dreq": 5, "timeout": 255}]),
        _ => json!([{"p2p": false, "timeout": 0, "log_ann": 4}, {"p2p": false}, {"p2p": true}]),
    };
    json!({"own": {"id": 5, "so": i % 7 == 3, "ptrace": i % 2 == 0, "class": if i % 5 == 0 { 6 } else { 248 }}, "ports": ports, "fwd": i % 3 != 0, "empty_on_bmca": i % 4 == 0})
}

fn event(r: &mut Rnd, w: &World<RecMutex>, seq: &mut u64) -> Value {
    let np = w.ports.len() as u64;
    let p = 1 + r.below(np);
    let src = match r.below(5) { 0 => json!([9, 1]), 1 => json!([5, p]), 2 => json!([5, 1]), _ => json!([2, 1]) };
    let snap = w.snapshot((p - 1) as usize);
    let ids = [snap["sync"]["id"].as_u64().unwrap_or(0), snap["delay"]["id"].as_u64().unwrap_or(0), snap["pd"]["id"].as_u64().unwrap_or(0), 0, 65535, r.below(65536)];
    let id = ids[r.below(6) as usize];
    let t = |r: &mut Rnd, b: &str| format!("{}{}", b, r.pick(&VT));
    let c = |r: &mut Rnd, b: &str| format!("{}{}", b, r.pick(&VC));
    match r.below(30) {
        0..=4 => {
            *seq += 1;
            let steps = ch(r, &[0u64, 1, 254, 255, 65535]);
            let mut ev = json!({"e": "ann", "p": p, "src": src, "seq": *seq % 65536, "g": [r.below(256), ch(r, &[6u64, 127, 128, 248, 255]), r.below(256), r.below(65536), r.below(256), ch(r, &[1u64, 2, 5, 9])], "steps": steps,
                                "tp": {"utc": r.below(65536) as i64 - 32768, "leap": ch(r, &[0u64, 59, 61]), "tt": r.below(2) == 0, "ft": r.below(2) == 0, "ptp": r.below(2) == 0, "src": r.below(256)}});
            if r.below(2) == 0 {
                let n = ch(r, &[0u64, 1, 2, 118, 119, 127, 128, 129, 200]);
                let path: Vec<u64> = (0..n).map(|i| if r.below(40) == 0 { 5 } else { 10 + (i % 200) }).collect();
                ev["path"] = json!(path);
            }
            if r.below(2) == 0 {
                let k = 1 + r.below(3);
                let tl: Vec<Value> = (0..k).map(|_| json!({"ty": ch(r, &[3u64, 8, 9, 16384, 32767, 32768, 0, 65535]), "len": ch(r, &[0u64, 2, 400, 940, 954, 956, 958, 1096, 1500]), "tag": r.below(32)})).collect();
                ev["tlvs"] = json!(tl);
            }
            if r.below(6) == 0 { ev["chan"] = json!("e"); ev["rx"] = json!(t(r, "t9")); }
            ev
        }
        5..=6 => json!({"e": "bmca"}),
        7..=11 => json!({"e": "t", "k": ch(r, &["ann", "sync", "dreq", "rcpt", "filt"]), "p": p}),
        12..=14 => json!({"e": "sync", "p": p, "src": src, "seq": id, "two": r.below(2) == 0, "rx": t(r, "t2_1"), "c": c(r, "cs_1"), "w1": t(r, "w1_1")}),
        15..=16 => json!({"e": "fup", "p": p, "src": src, "seq": id, "w1": t(r, "w1_1"), "c": c(r, "cf_1")}),
        17..=18 => json!({"e": "dresp", "p": p, "src": src, "seq": id, "req": [5, p], "w4": t(r, "w4_1"), "c": c(r, "cr_1")}),
        19 => json!({"e": "dreq", "p": p, "src": [7, 1], "seq": id, "c": c(r, "cq_1"), "rx": t(r, "tr_1")}),
        20 => json!({"e": "pdreq", "p": p, "src": [7, 1], "seq": id, "c": c(r, "cp_1"), "rx": t(r, "tp_1")}),
        21..=22 => json!({"e": "pdresp", "p": p, "src": [7 + r.below(2), 1], "seq": id, "req": [5, p], "two": r.below(2) == 0, "w2": t(r, "w2_1"), "c": c(r, "cr_2"), "rx": t(r, "t4_1")}),
        23 => json!({"e": "pdfup", "p": p, "src": [7 + r.below(2), 1], "seq": id, "req": [5, p], "w3": t(r, "w3_1"), "c": c(r, "cf_2")}),
        24..=25 => {
            let n = w.ctxs[(p - 1) as usize].len() as u64;
            if n == 0 { json!({"e": "so", "v": r.below(3) == 0}) } else { json!({"e": "ts", "p": p, "c": 1 + r.below(n), "t": t(r, "tx")}) }
        }
        26 => json!({"e": "q", "q": {"class": ch(r, &[6u64, 127, 128, 248, 255, 0]), "acc": r.below(256), "var": r.below(65536)}}),
        27 => json!({"e": "now", "t": t(r, "tnow")}),
        _ => {
            // raw frames: random octets, or a valid frame with a few octets / the length field / the size mutated
            let len = ch(r, &[0u64, 1, 2, 33, 34, 35, 44, 54, 64, 68, 100, 1024, 1025, 2047, 2048]);
            let mut b: Vec<u8> = (0..len).map(|_| r.below(256) as u8).collect();
            if b.len() >= 34 && r.below(4) != 0 {
                b[0] = (b[0] & 0xf0) | ch(r, &[0u8, 1, 2, 3, 8, 9, 10, 11, 12, 13]);
                b[1] = (b[1] & 0xf0) | 2;
                b[4] = 0; b[5] = 0; b[0] &= 0x0f;
                let ml: u16 = match r.below(5) { 0 => b.len() as u16, 1 => r.below(34) as u16, 2 => (b.len() as u16).saturating_add(1), 3 => 34, _ => r.below(2100) as u16 };
                b[2..4].copy_from_slice(&ml.to_be_bytes());
            }
            json!({"e": "raw", "p": p, "chan": if r.below(2) == 0 { "g" } else { "e" }, "rx": t(r, "t9"), "hex": b.iter().map(|x| format!("{:02x}", x)).collect::<String>()})
        }
    }
}

fn main() {
    vh::quiet_panics();
    let args: Vec<String> = std::env::args().collect();
    let mut runs = 100u64;
    let mut seed = 1u64;
    let mut len = 200usize;
    let mut dir = String::from(".");
    let mut lockpat = false;
    let mut patterns: std::collections::BTreeMap<String, std::collections::BTreeMap<String, u64>> = Default::default();
    let mut i = 1;
    while i < args.len() {
        match args[i].as_str() {
            "--runs" => { runs = args[i + 1].parse().unwrap(); i += 1; }
            "--seed" => { seed = args[i + 1].parse().unwrap(); i += 1; }
            "--len" => { len = args[i + 1].parse().unwrap(); i += 1; }
            "--replay-dir" => { dir = args[i + 1].clone(); i += 1; }
            "--lockpat" => { lockpat = true; }
            _ => {}
        }
        i += 1;
    }
    vh::collab::LOCK_DETAIL.with(|d| d.set(lockpat));
    let mut viol: Vec<Value> = vec![];
    let mut seen: std::collections::BTreeSet<String> = Default::default();
    let mut calls = 0u64;
    let mut kinds: std::collections::BTreeMap<String, u64> = Default::default();
    let mut total_panics = 0u64;
    for idx in 0..runs {
        let mut cfgv = cfgs(idx);
        cfgv["seed"] = json!(seed + idx);
        cfgv["rng"] = json!(splitmix(seed ^ idx) | 1);
        let mut r = Rnd(seed.wrapping_mul(31_337).wrapping_add(idx));
        let mut w: World<RecMutex> = World::new(Cfg::from_json(&cfgv));
        w.start();
        let mut hist: Vec<Value> = vec![];
        let mut seq = r.below(65536);
        for _ in 0..len {
            let mut ev = event(&mut r, &w, &mut seq);
            // one frame in twelve comes from another domain, sdoId or PTP version (decided from the event's own text, so the random
            // stream of the alphabet above is the same with and without it): the rejecting paths take the state lock too
            if ev.get("src").is_some() {
                let h = splitmix(ev.to_string().bytes().fold(0xcbf29ce484222325u64, |a, b| (a ^ b as u64).wrapping_mul(0x100000001b3)));
                match h % 48 { 0 => { ev["dom"] = json!(3); } 1 => { ev["sdo"] = json!(256); } 2 => { ev["sdo"] = json!(1); } 3 => { ev["ver"] = json!(1); } _ => {} }
            }
            *kinds.entry(ev["e"].as_str().unwrap().to_string()).or_default() += 1;
            hist.push(ev.clone());
            calls += 1;
            let pre_state = if lockpat { ev.get("p").and_then(|x| x.as_u64()).map(|p| w.port_state_letter(p as usize - 1)).unwrap_or("-") } else { "-" };
            let res = w.step(&ev);
            let locks = lock_log_take();
            if lockpat {
                let name = format!("{}{}/{}", ev["e"].as_str().unwrap(), ev.get("k").and_then(|x| x.as_str()).map(|k| format!(":{}", k)).unwrap_or_default(), pre_state);
                *patterns.entry(name).or_default().entry(locks.clone()).or_default() += 1;
            }
            let bad = res.get("panic").map(|p| p.as_str().unwrap_or("panic").to_string()).or(if locks.contains('P') { Some("state lock released by unwinding (poisoned)".to_string()) } else { None });
            if let Some(msg) = bad {
                total_panics += 1;
                let sig: String = msg.chars().take(60).collect();
                if seen.insert(sig) && viol.len() < 10 {
                    let path = format!("{}/robust-{}.json", dir, viol.len());
                    std::fs::create_dir_all(&dir).ok();
                    std::fs::write(&path, serde_json::to_string_pretty(&json!({"kind": "predicate", "cfg": cfgv, "seed": seed + idx, "hist": hist, "exp": {}, "detail": msg})).unwrap()).ok();
                    viol.push(json!({"detail": format!("panic: {}", msg), "replay": path}));
                }
                break; // the objects may be inconsistent after an unwind: start a new run
            }
        }
    }
    // getters used by observers (each is one call of the public API)
    if lockpat {
        let w: World<RecMutex> = World::new(Cfg::from_json(&cfgs(0)));
        lock_log_take();
        let _ = w.inst().parent_ds(); patterns.entry("get:parent_ds".into()).or_default().insert(lock_log_take(), 1);
        let _ = w.inst().current_ds(None); patterns.entry("get:current_ds".into()).or_default().insert(lock_log_take(), 1);
        let _ = w.inst().time_properties_ds(); patterns.entry("get:time_properties_ds".into()).or_default().insert(lock_log_take(), 1);
        let _ = w.inst().default_ds(); patterns.entry("get:default_ds".into()).or_default().insert(lock_log_take(), 1);
        let _ = w.inst().path_trace_ds(); patterns.entry("get:path_trace_ds".into()).or_default().insert(lock_log_take(), 1);
    }
    println!("{}", json!({"runs": runs, "calls": calls, "events_by_kind": kinds, "panics": total_panics, "violations": viol, "lock_patterns": patterns}));
}
