//! C15: lag and overflow of the daemon's TLV forwarder (128-slot broadcast
//! channel) with real ports: more than 128 TLVs arrive between two Announces
//! of a master port. Whatever is forwarded afterwards must still be a
//! subsequence of the arrival order without repetition, only from the parent,
//! and every Announce must be sent, fit and decode.
use serde_json::{json, Value};
use vh::collab::RecMutex;
use vh::world::{Cfg, World};

fn main() {
    vh::quiet_panics();
    let args: Vec<String> = std::env::args().collect();
    let mut seed = 1u64;
    let mut dir = String::from(".");
    let mut i = 1;
    while i < args.len() {
        match args[i].as_str() {
            "--seed" => { seed = args[i + 1].parse().unwrap(); i += 1; }
            "--replay-dir" => { dir = args[i + 1].clone(); i += 1; }
            _ => {}
        }
        i += 1;
    }
    let mut viol: Vec<Value> = vec![];
    let mut calls = 0u64;
    for burst in [1usize, 127, 128, 129, 130, 200, 300] {
        for per_ann in [1usize, 3] {
            let cfg = json!({"own": {"id": 5}, "ports": [{"p2p": false}, {"p2p": false}], "fwd": true, "seed": seed});
            let mut w: World<RecMutex> = World::new(Cfg::from_json(&cfg));
            w.start();
            let g = json!([100, 248, 254, 65535, 128, 2]);
            let mut seq = 1u64;
            for _ in 0..2 { w.step(&json!({"e": "ann", "p": 1, "src": [2, 1], "seq": seq, "g": g, "steps": 0})); seq += 1; }
            w.step(&json!({"e": "bmca"}));
            w.step(&json!({"e": "t", "k": "rcpt", "p": 2}));
            let mut hist = vec![];
            let mut arrived: Vec<(u64, u64)> = vec![]; // (len, tag)
            let mut n = 0usize;
            let mut fail = |what: String, hist: &Vec<Value>, viol: &mut Vec<Value>| {
                if viol.len() < 5 {
                    let path = format!("{}/fwdlag-{}.json", dir, viol.len());
                    std::fs::create_dir_all(&dir).ok();
                    std::fs::write(&path, serde_json::to_string_pretty(&json!({"kind": "fwdlag", "what": what, "burst": burst, "per_announce": per_ann, "seed": seed, "hist": hist})).unwrap()).ok();
                    viol.push(json!({"detail": what, "replay": path}));
                }
            };
            let mut emitted: Vec<(u64, u64)> = vec![];
            for round in 0..3 {
                while n < burst * (round + 1) {
                    let mut tl = vec![];
                    for _ in 0..per_ann {
                        let len = 2 + 2 * ((n as u64 * 7 + seed) % 20);
                        let tag = 1 + (n as u64 % 31);
                        tl.push(json!({"ty": 16384, "len": len, "tag": tag}));
                        arrived.push((len, tag));
                        n += 1;
                    }
                    let ev = json!({"e": "ann", "p": 1, "src": [2, 1], "seq": seq, "g": g, "steps": 0, "tlvs": tl});
                    seq += 1;
                    calls += 1;
                    let r = w.step(&ev);
                    hist.push(ev);
                    if r.get("panic").is_some() { fail(format!("panic while receiving: {}", r["panic"]), &hist, &mut viol); }
                }
                // drain with announce timers until an Announce carries nothing
                for _ in 0..400 {
                    let ev = json!({"e": "t", "k": "ann", "p": 2});
                    let r = w.step(&ev);
                    calls += 1;
                    hist.push(ev);
                    if r.get("panic").is_some() { fail(format!("panic in announce timer: {}", r["panic"]), &hist, &mut viol); break; }
                    let a = &r["out"][1];
                    if a["t"] != "Announce" { fail("announce timer on a master port did not produce an Announce".into(), &hist, &mut viol); break; }
                    if a["len"].as_u64().unwrap_or(0) > 1024 || a["selfdec"] != true { fail(format!("Announce of {} octets / decodable {}", a["len"], a["selfdec"]), &hist, &mut viol); }
                    let tl = a["tlvs"].as_array().cloned().unwrap_or_default();
                    if tl.is_empty() { break; }
                    for t in tl { emitted.push((t["len"].as_u64().unwrap(), t["tag"].as_u64().unwrap_or(99))); }
                }
            }
            // emitted must be a subsequence of arrived
            let mut j = 0usize;
            for e in &emitted {
                while j < arrived.len() && arrived[j] != *e { j += 1; }
                if j == arrived.len() { fail(format!("forwarded TLV (len {}, tag {}) out of arrival order or repeated", e.0, e.1), &hist, &mut viol); break; }
                j += 1;
            }
            // with at most 128 outstanding TLVs nothing may be lost
            if burst <= 128 && per_ann == 1 && emitted.len() != arrived.len() {
                fail(format!("{} of {} TLVs forwarded although the channel never overflowed", emitted.len(), arrived.len()), &hist, &mut viol);
            }
        }
    }
    println!("{}", json!({"calls": calls, "bursts": [1, 127, 128, 129, 130, 200, 300], "violations": viol}));
}
