//! C04: random and mutated buffers; statime's parser against the harness's
//! independent Clause 13 decoder: same accept/reject, an accepted message
//! re-encodes to the declared length, decodes again to an equal message,
//! re-encodes identically, and only the octets inside the declared length
//! influence the result.
use serde_json::{json, Value};
use statime::fuzz::FuzzMessage;
use std::panic::{catch_unwind, AssertUnwindSafe};
use vh::wire::{hex, Frame};
use vh::world::splitmix;

fn main() {
    vh::quiet_panics();
    let args: Vec<String> = std::env::args().collect();
    let mut runs = 100000u64;
    let mut seed = 1u64;
    let mut dir = String::from(".");
    let mut i = 1;
    while i < args.len() {
        match args[i].as_str() {
            "--runs" => { runs = args[i + 1].parse().unwrap(); i += 1; }
            "--seed" => { seed = args[i + 1].parse().unwrap(); i += 1; }
            "--replay-dir" => { dir = args[i + 1].clone(); i += 1; }
            _ => {}
        }
        i += 1;
    }
    let mut x = seed;
    let mut nx = move || { x = splitmix(x); x };
    let mut viol: Vec<Value> = vec![];
    let mut accepted = 0u64;
    let mut fail = |key: &str, what: String, b: &[u8], viol: &mut Vec<Value>| {
        if viol.iter().filter(|v| v["key"] == key).count() < 3 {
            let path = format!("{}/codecfuzz-{}.json", dir, viol.len());
            std::fs::create_dir_all(&dir).ok();
            std::fs::write(&path, serde_json::to_string_pretty(&json!({"kind": "codecvec", "key": key, "detail": what, "bytes": hex(b)})).unwrap()).ok();
            viol.push(json!({"key": key, "detail": what, "replay": path}));
        }
    };
    for _ in 0..runs {
        // a plausible frame: known type, version 2, consistent length, random body, then mutate a little
        let t = [0u8, 1, 2, 3, 8, 9, 10, 11, 12, 13][(nx() % 10) as usize];
        let body = [10usize, 10, 20, 20, 10, 20, 20, 30, 10, 14][[0u8, 1, 2, 3, 8, 9, 10, 11, 12, 13].iter().position(|y| *y == t).unwrap()];
        let mut tl: Vec<u8> = vec![];
        for _ in 0..(nx() % 4) {
            let l = 2 * (nx() % 20) as usize;
            tl.extend_from_slice(&((nx() % 65536) as u16).to_be_bytes());
            tl.extend_from_slice(&(l as u16).to_be_bytes());
            for _ in 0..l { tl.push(nx() as u8); }
        }
        let mut b: Vec<u8> = (0..34 + body).map(|_| nx() as u8).collect();
        b[0] = (b[0] & 0xf0) | t;
        b.extend_from_slice(&tl);
        let ml = b.len() as u16;
        b[2..4].copy_from_slice(&ml.to_be_bytes());
        for _ in 0..(nx() % 3) { b.push(nx() as u8); } // transport padding
        match nx() % 8 {
            0 => { let k = (nx() as usize) % b.len(); b[k] ^= 1 << (nx() % 8); }
            1 => { let k = (nx() as usize) % (b.len() + 1); b.truncate(k); }
            2 => { if b.len() > 4 { let v = (nx() % 2100) as u16; b[2..4].copy_from_slice(&v.to_be_bytes()); } }
            3 => { if b.len() > 40 { let k = 34 + body + (nx() as usize) % (b.len() - 34 - body + 1); if k + 3 < b.len() { b[k + 3] |= 1; } } }
            _ => {}
        }
        let own = Frame::decode(&b).is_ok();
        let r = catch_unwind(AssertUnwindSafe(|| FuzzMessage::deserialize(&b).ok()));
        let m = match r { Err(_) => { fail("C04/panic", "deserialize panicked".into(), &b, &mut viol); continue; } Ok(m) => m };
        match (own, m) {
            (false, None) => {}
            (true, None) => fail("C04/rejects-valid", "a well-formed message is rejected".into(), &b, &mut viol),
            (false, Some(_)) => fail("C04/accepts-invalid", "a buffer that is not a PTP message is accepted".into(), &b, &mut viol),
            (true, Some(m)) => {
                accepted += 1;
                let ml = u16::from_be_bytes([b[2], b[3]]) as usize;
                let mut buf = vec![0u8; 2048];
                match m.serialize(&mut buf) {
                    Err(_) => fail("C04/serialize-error", "serialize failed".into(), &b, &mut viol),
                    Ok(l) => {
                        if l != ml { fail("C04/length", format!("re-encoded length {} differs from messageLength {}", l, ml), &b, &mut viol); }
                        // octets beyond the declared length must not matter
                        let mut b2 = b.clone();
                        for k in ml..b2.len() { b2[k] = !b2[k]; }
                        if let Ok(m2) = FuzzMessage::deserialize(&b2) { if m2 != m { fail("C04/reads-past-length", "octets after the declared length change the decoded message".into(), &b, &mut viol); } }
                        else { fail("C04/reads-past-length", "octets after the declared length change the verdict".into(), &b, &mut viol); }
                        let out = buf[..l].to_vec();
                        match FuzzMessage::deserialize(&out) {
                            Err(_) => fail("C04/undecodable", "the re-encoded message does not decode".into(), &b, &mut viol),
                            Ok(m3) => {
                                if m3 != m { fail("C04/unequal", "decoding the re-encoded message yields a different message".into(), &b, &mut viol); }
                                let mut buf3 = vec![0u8; 2048];
                                if let Ok(l3) = m3.serialize(&mut buf3) { if buf3[..l3] != out[..] { fail("C04/not-idempotent", "encoding is not idempotent".into(), &b, &mut viol); } }
                            }
                        }
                        // field agreement with the independent decoder on the defined header fields
                        let f = Frame::decode(&out).unwrap();
                        let g = Frame::decode(&b).unwrap();
                        if f.hdr.seq != g.hdr.seq || f.hdr.src != g.hdr.src || f.hdr.correction != g.hdr.correction || f.hdr.domain != g.hdr.domain || f.hdr.sdo_id != g.hdr.sdo_id
                            || f.hdr.version != g.hdr.version || f.hdr.minor != g.hdr.minor || f.hdr.log_interval != g.hdr.log_interval || f.tlvs != g.tlvs
                            || (f.hdr.flags[0] & 0x67) != (g.hdr.flags[0] & 0x67) || (f.hdr.flags[1] & 0x7f) != (g.hdr.flags[1] & 0x7f) {
                            fail("C04/field", "a defined header field or the TLV suffix changed in the round trip".into(), &b, &mut viol);
                        }
                    }
                }
            }
        }
    }
    println!("{}", json!({"buffers": runs, "accepted": accepted, "violations": viol}));
}
