//! C13: adversarial measurement sequences into the real KalmanFilter and
//! BasicFilter (directly, with a recording clock that can fail), and a real
//! port leaving the slave state. Every clock command is logged as one event of
//! an ndjson trace that TLC validates against specs/TraceServo.tla; the guards
//! (finite, |frequency| <= max_freq_offset, |step| >= step_threshold, at most
//! one final command) are also evaluated here so that a replay file can be
//! written for the first offender of each kind.
use std::io::Write;
use std::panic::{catch_unwind, AssertUnwindSafe};

use serde_json::{json, Value};
use statime::config::TimePropertiesDS;
use statime::filters::{BasicFilter, Filter, KalmanConfiguration, KalmanFilter};
use statime::port::Measurement;
use statime::time::{Duration, Time};
use statime::Clock;
use vh::world::splitmix;

#[derive(Default)]
struct Clk { log: Vec<(char, f64)>, fail_every: u64, calls: u64, now_ns: u128, frac: i128 }   // now = now_ns + frac * 2^-32 ns
impl Clock for Clk {
    type Error = ();
    fn now(&self) -> Time { vh::collab::time_from_bits(((self.now_ns as i128) << 32).saturating_add(self.frac).max(0) as u128) }
    fn step_clock(&mut self, o: Duration) -> Result<Time, ()> {
        self.calls += 1;
        self.log.push(('s', o.seconds()));
        if self.fail_every > 0 && self.calls % self.fail_every == 0 { Err(()) } else {
            // a real clock moves by the step
            // exactly, in 2^-32 ns (the servo's own bookkeeping assumes the clock moved by exactly the step)
            let total = ((self.now_ns as i128) << 32) + self.frac + vh::collab::dur_bits(o);
            let total = total.max(0);
            self.now_ns = (total >> 32) as u128;
            self.frac = total & 0xffff_ffff;
            Ok(self.now())
        }
    }
    fn set_frequency(&mut self, f: f64) -> Result<Time, ()> {
        self.calls += 1;
        self.log.push(('f', f));
        if self.fail_every > 0 && self.calls % self.fail_every == 0 { Err(()) } else { Ok(self.now()) }
    }
    fn set_properties(&mut self, _: &TimePropertiesDS) -> Result<(), ()> { Ok(()) }
}

struct Rnd(u64);
impl Rnd {
    fn next(&mut self) -> u64 { self.0 = splitmix(self.0); self.0 }
    fn below(&mut self, n: u64) -> u64 { self.next() % n }
    fn unit(&mut self) -> f64 { (self.next() >> 11) as f64 / (1u64 << 53) as f64 }
}

fn cap(x: f64) -> i64 { if !x.is_finite() { -1 } else { x.min(1.0e9) as i64 } }

fn main() {
    if std::env::var("VH_LOUD").is_err() { vh::quiet_panics(); }
    let args: Vec<String> = std::env::args().collect();
    let mut runs = 300u64;
    let mut seed = 1u64;
    let mut dir = String::from(".");
    let mut trace = String::new();
    let mut i = 1;
    while i < args.len() {
        match args[i].as_str() {
            "--runs" => { runs = args[i + 1].parse().unwrap(); i += 1; }
            "--seed" => { seed = args[i + 1].parse().unwrap(); i += 1; }
            "--replay-dir" => { dir = args[i + 1].clone(); i += 1; }
            "--trace" => { trace = args[i + 1].clone(); i += 1; }
            _ => {}
        }
        i += 1;
    }
    // the trace is written in chunks of at most ~15 000 events (cut at run boundaries): <trace>.<n>.ndjson
    let mut chunk = 0usize;
    let mut in_chunk = 0usize;
    let mut tf = if trace.is_empty() { None } else { Some(std::io::BufWriter::new(std::fs::File::create(format!("{}.{}.ndjson", trace, chunk)).unwrap())) };
    let mut emit = |v: Value| {
        if tf.is_some() {
            if v["e"] == "new" && in_chunk > 15000 {
                chunk += 1;
                in_chunk = 0;
                tf = Some(std::io::BufWriter::new(std::fs::File::create(format!("{}.{}.ndjson", trace, chunk)).unwrap()));
            }
            in_chunk += 1;
            writeln!(tf.as_mut().unwrap(), "{}", v).unwrap();
        }
    };
    let mut viol: Vec<Value> = vec![];
    let mut counts: std::collections::BTreeMap<String, u64> = Default::default();
    let mut cmds = 0u64;
    let mut meas_total = 0u64;
    let mut events = 0u64;
    for idx in 0..runs {
        let mut r = Rnd(seed.wrapping_mul(0x9e3779b97f4a7c15).wrapping_add(idx));
        let family = idx % 9;
        let basic = idx % 5 == 4;
        let thr = [1e-6, 1e-3, 1e-3, 0.5][r.below(4) as usize];
        let maxf = [1.0, 400.0, 400.0, 5000.0][r.below(4) as usize];
        let cfg = KalmanConfiguration { step_threshold: Duration::from_seconds(thr), max_freq_offset: maxf, max_steer: [0.5, 200.0, 1e4][r.below(3) as usize],
                                        steer_time: Duration::from_seconds([0.1, 2.0, 60.0][r.below(3) as usize]), deadzone: [0.0, 1.0][r.below(2) as usize], ..Default::default() };
        let mut clk = Clk { fail_every: if family == 6 { 2 + r.below(3) } else { 0 }, now_ns: 1_700_000_000_000_000_000, ..Default::default() };
        let mut hist: Vec<Value> = vec![];
        emit(json!({"e": "new", "maxf": (maxf * 1000.0) as i64, "thr": (thr * 1e9) as i64, "basic": basic}));
        events += 1;
        let mut kf = if basic { None } else { Some(KalmanFilter::new(cfg)) };
        let mut bf = if basic { Some(BasicFilter::new([0.1, 0.5, 1.0][r.below(3) as usize])) } else { None };
        let mut t: i128 = 1_700_000_000_000_000_000;
        let n = 20 + r.below(120);
        let base_off: f64 = [0.0, 1e-9, 999e-6, 1.001e-3, 1.0, 10.0, 1e9, -1e9, -10.0, -1e-3][r.below(10) as usize];
        // family 8: identical sync and delay samples (offset 0 or tiny, one constant path delay) alternating at one event time: every
        // difference the measurement noise estimator sees is the same number, and no time passes between updates
        let base_off = if family == 8 { [0.0, 0.0, 1e-9][r.below(3) as usize] } else { base_off };
        let const_delay = [0.0, 1e-6, 100e-6][r.below(3) as usize];
        let mut panicked = false;
        // the filter update timer can fire before the first measurement (a stale timer hitting a fresh filter): nothing may be commanded
        for _ in 0..r.below(3) {
            let before = clk.log.len();
            let res = catch_unwind(AssertUnwindSafe(|| {
                if let Some(f) = kf.as_mut() { let _ = f.update(&mut clk); }
                if let Some(f) = bf.as_mut() { let _ = f.update(&mut clk); }
            }));
            emit(json!({"e": "upd"})); events += 1;
            for (c, val) in clk.log[before..].iter() {
                cmds += 1; events += 1;
                if *c == 'f' { emit(json!({"e": "freq", "fin": val.is_finite(), "mag": cap((val.abs() * 1000.0 - 1e-6).ceil().max(0.0))})); } else { emit(json!({"e": "step", "fin": val.is_finite(), "mag": cap((val.abs() * 1e9).floor())})); }
            }
            if res.is_err() || clk.log.len() > before {
                let key = "C13/idle-command";
                *counts.entry(key.into()).or_default() += 1;
                if viol.iter().filter(|v| v["key"] == key).count() < 2 {
                    let path = format!("{}/servo-{}.json", dir, viol.len());
                    std::fs::create_dir_all(&dir).ok();
                    std::fs::write(&path, serde_json::to_string_pretty(&json!({"kind": "servo", "key": key, "detail": "update() of a filter that has not seen a measurement commanded the clock", "filter": if basic { "basic" } else { "kalman" }, "commands": format!("{:?}", &clk.log[before..])})).unwrap()).ok();
                    viol.push(json!({"key": key, "detail": format!("Filter::update on a fresh {} filter commanded the clock: {:?}", if basic { "basic" } else { "kalman" }, &clk.log[before..]), "replay": path}));
                }
            }
        }
        for k in 0..n {
            // event time
            let dt: i128 = match family {
                1 | 8 => 0,                                                 // equal event times
                2 => if k % 3 == 2 { -((r.below(2_000_000_000)) as i128) } else { 125_000_000 },   // running backwards now and then
                _ => [125_000_000i128, 1_000_000_000, 1, 2_000_000_000][r.below(4) as usize],
            };
            t = (t + dt).max(0);
            // the local clock reads at least the event time (steps applied by the servo included)
            clk.now_ns = clk.now_ns.max(t as u128) + if dt > 0 { dt as u128 } else { 0 };
            let t = if family == 2 { t } else { clk.now_ns as i128 };
            let noise = match family { 1 | 3 | 8 => 0.0, _ => (r.unit() - 0.5) * [0.0, 1e-9, 1e-6, 1e-4][r.below(4) as usize] };
            let off = match family { 5 => [1e9, -1e9, 0.0, 1e-12, -1e-12][r.below(5) as usize], 7 => base_off * if k % 2 == 0 { 1.0 } else { -1.0 }, _ => base_off } + noise;
            let delay = if family == 8 { const_delay } else { [1e-6, 100e-6, 0.0][r.below(3) as usize] };
            let kind = match family { 4 => k % 3, 8 => k % 2, _ => r.below(3) };
            let et = if family == 2 { vh::collab::time_from_bits((t as u128) << 32) } else { clk.now() };
            let m = match kind {
                0 => Measurement { event_time: et, raw_sync_offset: Some(Duration::from_seconds(off + delay)), offset: Some(Duration::from_seconds(off)), ..Default::default() },
                1 => Measurement { event_time: et, raw_delay_offset: Some(Duration::from_seconds(off - delay)), delay: Some(Duration::from_seconds(delay)), ..Default::default() },
                _ => Measurement { event_time: et, peer_delay: Some(Duration::from_seconds(delay)), ..Default::default() },
            };
            hist.push(json!({"t": t.to_string(), "kind": kind, "off": off, "delay": delay}));
            meas_total += 1;
            let before = clk.log.len();
            let res = catch_unwind(AssertUnwindSafe(|| {
                if let Some(f) = kf.as_mut() { let _ = f.measurement(m, &mut clk); }
                if let Some(f) = bf.as_mut() { let _ = f.measurement(m, &mut clk); }
            }));
            emit(json!({"e": "meas", "k": kind}));
            events += 1;
            let mut bad: Option<(String, String)> = None;
            for (c, val) in clk.log[before..].iter() {
                cmds += 1;
                events += 1;
                let fin = val.is_finite();
                if *c == 'f' {
                    emit(json!({"e": "freq", "fin": fin, "mag": cap((val.abs() * 1000.0 - 1e-6).ceil().max(0.0))}));
                    if !fin { bad = Some(("C13/nonfinite".into(), format!("set_frequency({})", val))); }
                    else if !basic && val.abs() > maxf * (1.0 + 1e-12) { bad = Some(("C13/freq-bound".into(), format!("set_frequency({}) exceeds max_freq_offset {}", val, maxf))); }
                } else {
                    emit(json!({"e": "step", "fin": fin, "mag": cap((val.abs() * 1e9).floor())}));
                    if !fin { bad = Some(("C13/nonfinite".into(), format!("step_clock({})", val))); }
                    else if !basic && val.abs() < cfg.step_threshold.seconds() - 4.7e-10 { bad = Some(("C13/step-threshold".into(), format!("step_clock({} s) below the step threshold {} s", val, thr))); }
                }
            }
            if res.is_err() {
                emit(json!({"e": "panic"}));
                events += 1;
                bad = Some(("C13/panic".into(), "the servo panicked (non-finite state)".into()));
                panicked = true;
            }
            // the filter update timer between measurements: its commands obey the same guards
            if !panicked && r.below(4) == 0 {
                let before = clk.log.len();
                let resu = catch_unwind(AssertUnwindSafe(|| {
                    if let Some(f) = kf.as_mut() { let _ = f.update(&mut clk); }
                    if let Some(f) = bf.as_mut() { let _ = f.update(&mut clk); }
                }));
                emit(json!({"e": "upd"})); events += 1;
                for (c, val) in clk.log[before..].iter() {
                    cmds += 1; events += 1;
                    let fin = val.is_finite();
                    if *c == 'f' {
                        emit(json!({"e": "freq", "fin": fin, "mag": cap((val.abs() * 1000.0 - 1e-6).ceil().max(0.0))}));
                        if !fin { bad = Some(("C13/nonfinite".into(), format!("update: set_frequency({})", val))); }
                        else if !basic && val.abs() > maxf * (1.0 + 1e-12) { bad = Some(("C13/freq-bound".into(), format!("update: set_frequency({}) exceeds max_freq_offset {}", val, maxf))); }
                    } else {
                        emit(json!({"e": "step", "fin": fin, "mag": cap((val.abs() * 1e9).floor())}));
                        if !fin { bad = Some(("C13/nonfinite".into(), format!("update: step_clock({})", val))); }
                    }
                }
                if resu.is_err() { emit(json!({"e": "panic"})); events += 1; bad = Some(("C13/panic".into(), "update() panicked".into())); panicked = true; }
            }
            if let Some((key, what)) = bad {
                // signature of the recorded finding: zero-variance / equal-event-time sample sets
                let degenerate = family == 1 || family == 3 || family == 8;
                let key = if degenerate && (key == "C13/panic" || key == "C13/nonfinite") { format!("{}-degenerate", key) } else { key };
                *counts.entry(key.clone()).or_default() += 1;
                if viol.iter().filter(|v| v["key"] == key.as_str()).count() < 2 {
                    let path = format!("{}/servo-{}.json", dir, viol.len());
                    std::fs::create_dir_all(&dir).ok();
                    std::fs::write(&path, serde_json::to_string_pretty(&json!({"kind": "servo", "key": key, "detail": what, "filter": if basic { "basic" } else { "kalman" }, "family": family,
                        "step_threshold_s": thr, "max_freq_offset_ppm": maxf, "measurements": hist})).unwrap()).ok();
                    viol.push(json!({"key": key, "detail": format!("{} ({} filter, family {}, measurement {})", what, if basic { "basic" } else { "kalman" }, family, k), "replay": path}));
                }
                if panicked { break; }
            }
        }
        // leaving the slave state: demobilize issues at most one command, within the bound
        if !panicked {
            if let Some(f) = kf.take() {
                let before = clk.log.len();
                let res = catch_unwind(AssertUnwindSafe(|| f.demobilize(&mut clk)));
                emit(json!({"e": "demob"}));
                events += 1;
                let new = &clk.log[before..];
                for (c, val) in new {
                    cmds += 1; events += 1;
                    if *c == 'f' { emit(json!({"e": "freq", "fin": val.is_finite(), "mag": cap((val.abs() * 1000.0 - 1e-6).ceil().max(0.0))})); } else { emit(json!({"e": "step", "fin": val.is_finite(), "mag": cap((val.abs() * 1e9).floor())})); }
                }
                let bad = if res.is_err() { Some("demobilize panicked".to_string()) }
                          else if new.len() > 1 { Some(format!("demobilize issued {} commands", new.len())) }
                          else if new.iter().any(|(c, v)| *c != 'f' || !v.is_finite() || v.abs() > maxf * (1.0 + 1e-12)) { Some(format!("final command {:?} out of bounds", new)) } else { None };
                if let Some(what) = bad {
                    let key = if family == 1 || family == 3 || family == 8 { "C13/demob-degenerate" } else { "C13/demob" };
                    *counts.entry(key.into()).or_default() += 1;
                    if viol.iter().filter(|v| v["key"] == key).count() < 2 {
                        let path = format!("{}/servo-{}.json", dir, viol.len());
                        std::fs::write(&path, serde_json::to_string_pretty(&json!({"kind": "servo", "key": key, "detail": what, "measurements": hist})).unwrap()).ok();
                        viol.push(json!({"key": key, "detail": what, "replay": path}));
                    }
                }
            }
        }
    }
    drop(emit);
    if let Some(mut f) = tf { f.flush().unwrap(); }
    let chunks = if trace.is_empty() { 0 } else { chunk + 1 };
    println!("{}", json!({"runs": runs, "measurements": meas_total, "commands": cmds, "trace_events": events, "trace_chunks": chunks, "by_kind": counts, "violations": viol}));
}
