//! C10: drive more than 65536 emissions of every message type through real
//! ports and check that sequence ids advance by one modulo 2^16, that each
//! Sync gets exactly one Follow_Up with its id and exact timestamp, and that
//! responses echo the request's sequence id.
use serde_json::{json, Value};
use vh::collab::RecMutex;
use vh::world::{subset_match, Cfg, World};

fn main() {
    vh::quiet_panics();
    let args: Vec<String> = std::env::args().collect();
    let mut count: u64 = 65540;
    let mut seed: u64 = 1;
    let mut dir = String::from(".");
    let mut i = 1;
    while i < args.len() {
        match args[i].as_str() {
            "--count" => { count = args[i + 1].parse().unwrap(); i += 1; }
            "--seed" => { seed = args[i + 1].parse().unwrap(); i += 1; }
            "--replay-dir" => { dir = args[i + 1].clone(); i += 1; }
            _ => {}
        }
        i += 1;
    }
    let mut viol: Vec<Value> = vec![];
    let mut calls = 0u64;
    let mut fail = |what: String, detail: Value, viol: &mut Vec<Value>| {
        if viol.len() < 5 {
            let path = format!("{}/seqwrap-{}.json", dir, viol.len());
            std::fs::create_dir_all(&dir).ok();
            std::fs::write(&path, serde_json::to_string_pretty(&json!({"kind": "seqwrap", "what": what, "detail": detail, "seed": seed, "count": count})).unwrap()).ok();
            viol.push(json!({"detail": what, "replay": path}));
        }
    };
    // ---- master port (E2E): Sync + Follow_Up, Announce, Delay_Resp echo
    let cfgv = json!({"own": {"id": 5}, "ports": [{"p2p": false}], "seed": seed});
    let mut w: World<RecMutex> = World::new(Cfg::from_json(&cfgv));
    w.start();
    w.step(&json!({"e": "t", "k": "rcpt", "p": 1}));
    for n in 0..count {
        let want = (n % 65536) as u64;
        let r = w.step(&json!({"e": "t", "k": "sync", "p": 1}));
        calls += 1;
        let sync = &r["out"][1];
        if sync["t"] != "Sync" || sync["seq"].as_u64() != Some(want) || r["out"].as_array().map(|a| a.len()) != Some(2) {
            fail(format!("Sync number {} carries sequence id {} (expected {})", n, sync["seq"], want), r.clone(), &mut viol);
        }
        let ctx = sync["ctx"].as_u64().unwrap_or(0);
        let tname = format!("tS_{}", n % 50);
        let r2 = w.step(&json!({"e": "ts", "p": 1, "c": ctx, "t": tname}));
        calls += 1;
        let exp = json!([{"a": "G", "t": "FollowUp", "seq": want, "tsum": {"v": tname}, "ts": {"v": tname}, "selfdec": true}]);
        if let Some(m) = subset_match(&w.vals, &exp, &r2["out"], "out") {
            fail(format!("Follow_Up for Sync number {}: {}", n, m), r2.clone(), &mut viol);
        }
        // free the context store now and then (indices keep growing, entries are None once used)
        let r3 = w.step(&json!({"e": "t", "k": "ann", "p": 1}));
        calls += 1;
        if r3["out"][1]["t"] != "Announce" || r3["out"][1]["seq"].as_u64() != Some(want) {
            fail(format!("Announce number {} carries sequence id {} (expected {})", n, r3["out"][1]["seq"], want), r3.clone(), &mut viol);
        }
        if n % 97 == 0 {
            let q = (n * 7919) % 65536;
            let r4 = w.step(&json!({"e": "dreq", "p": 1, "src": [7, 3], "seq": q, "c": "cq_1", "rx": "tr_1"}));
            calls += 1;
            let exp = json!([{"a": "G", "t": "DelayResp", "seq": q, "req": [7, 3], "tsum": {"op": "add", "l": {"v": "tr_1"}, "r": {"v": "cq_1"}}, "selfdec": true}]);
            if let Some(m) = subset_match(&w.vals, &exp, &r4["out"], "out") {
                fail(format!("Delay_Resp to request {}: {}", q, m), r4.clone(), &mut viol);
            }
        }
    }
    // ---- slave port (E2E): Delay_Req ids
    let mut w: World<RecMutex> = World::new(Cfg::from_json(&cfgv));
    w.start();
    w.step(&json!({"e": "ann", "p": 1, "src": [2, 1], "seq": 1, "g": [100, 248, 254, 65535, 128, 2], "steps": 0}));
    w.step(&json!({"e": "ann", "p": 1, "src": [2, 1], "seq": 2, "g": [100, 248, 254, 65535, 128, 2], "steps": 0}));
    w.step(&json!({"e": "bmca"}));
    for n in 0..count {
        let want = (n % 65536) as u64;
        let r = w.step(&json!({"e": "t", "k": "dreq", "p": 1}));
        calls += 1;
        let f = &r["out"][1];
        if f["t"] != "DelayReq" || f["seq"].as_u64() != Some(want) {
            fail(format!("Delay_Req number {} carries sequence id {} (expected {})", n, f["seq"], want), r.clone(), &mut viol);
        }
        // the matching response must be accepted across the wrap: timestamp + response -> one delay measurement
        if n % 4093 == 0 || n > 65530 {
            let ctx = f["ctx"].as_u64().unwrap_or(0);
            w.step(&json!({"e": "ts", "p": 1, "c": ctx, "t": "t3_1"}));
            let rr = w.step(&json!({"e": "dresp", "p": 1, "src": [2, 1], "seq": want, "req": [5, 1], "w4": "w4_1", "c": "cr_1"}));
            let _ = rr;
            let pr = w.project(&json!({}));
            let meas = pr["flt"].as_array().map(|a| a.iter().filter(|x| x["k"] == "meas").count()).unwrap_or(0);
            calls += 2;
            if meas != 1 {
                fail(format!("delay exchange with id {} produced {} measurements", want, meas), pr.clone(), &mut viol);
            }
        }
    }
    // ---- P2P port: Pdelay_Req ids, Pdelay_Resp / follow-up echo
    let cfgp = json!({"own": {"id": 5}, "ports": [{"p2p": true}], "seed": seed});
    let mut w: World<RecMutex> = World::new(Cfg::from_json(&cfgp));
    w.start();
    for n in 0..count {
        let want = (n % 65536) as u64;
        let r = w.step(&json!({"e": "t", "k": "dreq", "p": 1}));
        calls += 1;
        let f = &r["out"][1];
        if f["t"] != "PdelayReq" || f["seq"].as_u64() != Some(want) {
            fail(format!("Pdelay_Req number {} carries sequence id {} (expected {})", n, f["seq"], want), r.clone(), &mut viol);
        }
        if n % 101 == 0 {
            let q = (n * 104729) % 65536;
            let r4 = w.step(&json!({"e": "pdreq", "p": 1, "src": [8, 2], "seq": q, "c": "cp_1", "rx": "tp_1"}));
            let exp = json!([{"a": "E", "t": "PdelayResp", "seq": q, "req": [8, 2], "ts": {"v": "tp_1"}, "corr": {"v": "cp_1"}, "ll": true, "selfdec": true}]);
            if let Some(m) = subset_match(&w.vals, &exp, &r4["out"], "out") {
                fail(format!("Pdelay_Resp to request {}: {}", q, m), r4.clone(), &mut viol);
            }
            let ctx = r4["out"][0]["ctx"].as_u64().unwrap_or(0);
            let r5 = w.step(&json!({"e": "ts", "p": 1, "c": ctx, "t": "tR_1"}));
            let exp = json!([{"a": "G", "t": "PdelayRespFup", "seq": q, "req": [8, 2], "ts": {"v": "tR_1"}, "ll": true, "selfdec": true}]);
            if let Some(m) = subset_match(&w.vals, &exp, &r5["out"], "out") {
                fail(format!("Pdelay_Resp_Follow_Up to request {}: {}", q, m), r5.clone(), &mut viol);
            }
            calls += 2;
        }
    }
    println!("{}", json!({"calls": calls, "emissions_per_type": count, "violations": viol}));
}
