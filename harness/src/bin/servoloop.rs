//! C02: closed loop in virtual time. A real slave `Port` with the real
//! `KalmanFilter` listens to a simulated master (frames built by the harness's
//! independent encoder: Announce, Sync (+Follow_Up), Delay_Resp) over a path
//! with symmetric delay and bounded jitter; the port's own `set_frequency` /
//! `step_clock` calls act on a simulated oscillator with an initial offset and
//! a frequency error, so its corrections change its later timestamps. The host
//! obeys the returned timer actions. The run is logged as an ndjson trace
//! (true offset at every Sync arrival, every clock command) which TLC validates
//! against specs/TraceLoop.tla.
use std::cell::RefCell;
use std::io::Write;
use std::rc::Rc;

use rand::SeedableRng;
use serde_json::{json, Value};
use statime::config::{AcceptAnyMaster, ClockIdentity, ClockQuality, DelayMechanism, InstanceConfig, PortConfig, PtpMinorVersion, SdoId, TimePropertiesDS, TimeSource};
use statime::filters::{KalmanConfiguration, KalmanFilter};
use statime::port::{NoForwardedTLVs, PortAction, TimestampContext};
use statime::time::{Duration, Interval, Time};
use statime::{Clock, PtpInstance};
use vh::collab::{dur_bits, time_from_bits};
use vh::wire::{self, Ann, Body, Frame, Hdr, PortId, Ts};
use vh::world::splitmix;

/// simulated oscillator: local time as a function of true time (all in ns, f64 rates, i128 accumulators in 2^-32 ns)
struct Osc { t_last: f64, local_last: f64, err_ppm: f64, corr_ppm: f64, cmds: Vec<(char, f64)> }
impl Osc {
    fn local(&self, t: f64) -> f64 { self.local_last + (t - self.t_last) * (1.0 + (self.err_ppm + self.corr_ppm) * 1e-6) }
    fn advance(&mut self, t: f64) { self.local_last = self.local(t); self.t_last = t; }
}
#[derive(Clone)]
struct SimClock { osc: Rc<RefCell<Osc>>, now_true: Rc<RefCell<f64>> }
fn to_time(ns: f64) -> Time { let n = ns.max(0.0); let whole = n.floor(); time_from_bits(((whole as u128) << 32) | (((n - whole) * 4294967296.0) as u128)) }
impl Clock for SimClock {
    type Error = ();
    fn now(&self) -> Time { to_time(self.osc.borrow().local(*self.now_true.borrow())) }
    fn step_clock(&mut self, o: Duration) -> Result<Time, ()> {
        let t = *self.now_true.borrow();
        let mut osc = self.osc.borrow_mut();
        osc.advance(t);
        let s = dur_bits(o) as f64 / 4294967296.0;
        osc.local_last += s;
        osc.cmds.push(('s', s));
        Ok(to_time(osc.local_last))
    }
    fn set_frequency(&mut self, ppm: f64) -> Result<Time, ()> {
        let t = *self.now_true.borrow();
        let mut osc = self.osc.borrow_mut();
        osc.advance(t);
        osc.corr_ppm = ppm;
        osc.cmds.push(('f', ppm));
        Ok(to_time(osc.local_last))
    }
    fn set_properties(&mut self, _: &TimePropertiesDS) -> Result<(), ()> { Ok(()) }
}

struct Rnd(u64);
impl Rnd { fn next(&mut self) -> u64 { self.0 = splitmix(self.0); self.0 } fn unit(&mut self) -> f64 { (self.next() >> 11) as f64 / (1u64 << 53) as f64 } }

const MASTER: PortId = PortId { clock: [0x0a; 8], port: 1 };
const BASE: f64 = 1.0e15;   // f64 resolves 0.125 ns at this magnitude // true time origin (ns)

#[derive(Clone, Copy, PartialEq, PartialOrd)]
enum Ev { SyncSend, SyncArrive(u16, f64), FupArrive(u16, f64), DreqTimer, DreqArrive(u16, f64), DrespArrive(u16, f64), TxTs(usize), Announce, Bmca, FilterTimer, RcptTimer }

pub struct Params { pub offset_s: f64, pub err_ppm: f64, pub delay_us: f64, pub jitter_us: f64, pub log_sync: i8, pub two_step: bool, pub late_ts: bool, pub duration_s: f64, pub seed: u64 }

fn run(p: &Params, out: &mut dyn FnMut(Value)) -> Result<(), String> {
    let cfg = InstanceConfig { clock_identity: ClockIdentity([5; 8]), priority_1: 200, priority_2: 200, domain_number: 0, sdo_id: SdoId::try_from(0).unwrap(), slave_only: false, path_trace: false, clock_quality: ClockQuality::default() };
    let inst: PtpInstance<KalmanFilter> = PtpInstance::new(cfg, TimePropertiesDS::new_arbitrary_time(false, false, TimeSource::InternalOscillator));
    let osc = Rc::new(RefCell::new(Osc { t_last: BASE, local_last: BASE + p.offset_s * 1e9, err_ppm: p.err_ppm, corr_ppm: 0.0, cmds: vec![] }));
    let now_true = Rc::new(RefCell::new(BASE));
    let clock = SimClock { osc: osc.clone(), now_true: now_true.clone() };
    let interval = Interval::from_log_2(p.log_sync);
    let pc = PortConfig { acceptable_master_list: AcceptAnyMaster, delay_mechanism: DelayMechanism::E2E { interval }, announce_interval: Interval::from_log_2(0), announce_receipt_timeout: 3,
                          sync_interval: interval, master_only: false, delay_asymmetry: Duration::ZERO, minor_ptp_version: PtpMinorVersion::One };
    let port = inst.add_port(pc, KalmanConfiguration::default(), clock, rand::rngs::StdRng::seed_from_u64(p.seed));
    let (mut port, init) = port.end_bmca();
    let mut r = Rnd(p.seed ^ 0xabcdef);
    let sync_ns = 2f64.powi(p.log_sync as i32) * 1e9;
    let delay = p.delay_us * 1e3;
    let jit = |r: &mut Rnd| (r.unit() * 2.0 - 1.0) * p.jitter_us * 1e3;
    // event queue: (true time, ev)
    let mut q: Vec<(f64, Ev)> = vec![(BASE + 1e6, Ev::Announce), (BASE + 0.5e9, Ev::Bmca), (BASE + 2e6, Ev::SyncSend)];
    let mut timers: [Option<f64>; 3] = [None, None, None]; // dreq, filter, rcpt  (true-time deadlines, converted from local durations ~ equal)
    let mut ann_seq = 0u16;
    let mut sync_seq = 0u16;
    let mut pending_ctx: Vec<(TimestampContext, u16)> = vec![];
    let mut late: Vec<Option<(TimestampContext, Time)>> = vec![];
    let end = BASE + p.duration_s * 1e9;
    // handle actions helper (as a macro-like closure is awkward with borrows, inline below)
    macro_rules! handle { ($acts:expr, $t:expr) => {{
        let mut sends: Vec<(Vec<u8>, Option<TimestampContext>)> = vec![];
        for a in $acts {
            match a {
                PortAction::ResetDelayRequestTimer { duration } => timers[0] = Some($t + duration.as_nanos() as f64),
                PortAction::ResetFilterUpdateTimer { duration } => timers[1] = Some($t + duration.as_nanos() as f64),
                PortAction::ResetAnnounceReceiptTimer { duration } => timers[2] = Some($t + duration.as_nanos() as f64),
                PortAction::ResetAnnounceTimer { .. } | PortAction::ResetSyncTimer { .. } => {}
                PortAction::SendEvent { context, data, .. } => sends.push((data.to_vec(), Some(context))),
                PortAction::SendGeneral { data, .. } => sends.push((data.to_vec(), None)),
                PortAction::ForwardTLV { .. } => {}
            }
        }
        sends
    }}; }
    let s0 = handle!(init, BASE); drop(s0);
    let mut became_slave = false;
    loop {
        // next event: queue or timers
        let mut best: Option<(f64, Ev)> = None;
        for (t, e) in q.iter() { if best.map(|b| *t < b.0).unwrap_or(true) { best = Some((*t, *e)); } }
        for (i, d) in timers.iter().enumerate() { if let Some(d) = d { if best.map(|b| *d < b.0).unwrap_or(true) { best = Some((*d, [Ev::DreqTimer, Ev::FilterTimer, Ev::RcptTimer][i])); } } }
        let (t, e) = match best { Some(b) => b, None => break };
        if t > end { break; }
        *now_true.borrow_mut() = t;
        if let Some(pos) = q.iter().position(|x| x.0 == t && x.1 == e) { q.swap_remove(pos); }
        let cmds_before = osc.borrow().cmds.len();
        match e {
            Ev::Announce => {
                let mut h = Hdr::new(wire::T_ANNOUNCE, MASTER, ann_seq); ann_seq = ann_seq.wrapping_add(1);
                h.flags[1] = wire::F1_PTP_TIMESCALE;
                let f = Frame::new(h, Body::Announce(Ann { p1: 10, class: 6, accuracy: 0x21, variance: 100, p2: 10, gm: MASTER.clock, steps: 0, time_source: 0x20, ..Default::default() })).encode();
                let s = handle!(port.handle_general_receive(&f), t); drop(s);
                q.push((t + 1e9, Ev::Announce));
            }
            Ev::Bmca => {
                let mut b = port.start_bmca();
                inst.bmca(&mut [&mut b]);
                let (pp, acts) = b.end_bmca();
                port = pp;
                let s = handle!(acts, t); drop(s);
                if port.is_steering() { became_slave = true; }
                q.push((t + 1e9, Ev::Bmca));
            }
            Ev::SyncSend => {
                let seq = sync_seq; sync_seq = sync_seq.wrapping_add(1);
                q.push((t + delay + jit(&mut r), Ev::SyncArrive(seq, t)));
                if p.two_step { q.push((t + delay + p.jitter_us * 1e3 + 50e3 + r.unit() * 1e5, Ev::FupArrive(seq, t))); }
                q.push((t + sync_ns, Ev::SyncSend));
            }
            Ev::SyncArrive(seq, t1) => {
                let mut h = Hdr::new(wire::T_SYNC, MASTER, seq);
                if p.two_step { h.flags[0] |= wire::F0_TWO_STEP; }
                let origin = if p.two_step { Ts::default() } else { Ts::from_ns(t1 as u128) };
                let f = Frame::new(h, Body::Sync { origin }).encode();
                let rx = to_time(osc.borrow().local(t));
                let true_off = osc.borrow().local(t) - t;
                out(json!({"e": "obs", "t": ((t - BASE) / 1e9) as i64, "off": (true_off.abs().min(2e9)) as i64}));
                let s = handle!(port.handle_event_receive(&f, rx), t); drop(s);
            }
            Ev::FupArrive(seq, t1) => {
                let h = Hdr::new(wire::T_FOLLOW_UP, MASTER, seq);
                let f = Frame::new(h, Body::FollowUp { precise_origin: Ts::from_ns(t1 as u128) }).encode();
                let s = handle!(port.handle_general_receive(&f), t); drop(s);
            }
            Ev::DreqTimer => {
                timers[0] = None;
                let sends = handle!(port.handle_delay_request_timer(), t);
                for (data, ctx) in sends {
                    if let (Some(ctx), Ok(fr)) = (ctx, Frame::decode(&data)) {
                        let txl = to_time(osc.borrow().local(t));
                        pending_ctx.push((ctx, fr.hdr.seq));
                        let (c, seq) = pending_ctx.pop().unwrap();
                        if p.late_ts {
                            // the stack learns the transmit timestamp only after the Delay_Resp has been handled (short link, slow timestamp retrieval)
                            late.push(Some((c, txl)));
                            q.push((t + 2.0 * delay + 2.0 * p.jitter_us * 1e3 + 40e3, Ev::TxTs(late.len() - 1)));
                        } else {
                            let s = handle!(port.handle_send_timestamp(c, txl), t); drop(s);
                        }
                        q.push((t + delay + jit(&mut r), Ev::DreqArrive(seq, 0.0)));
                    }
                }
            }
            Ev::TxTs(i) => { if let Some((c, txl)) = late[i].take() { let s = handle!(port.handle_send_timestamp(c, txl), t); drop(s); } }
            Ev::DreqArrive(seq, _) => { q.push((t + delay + jit(&mut r) + 20e3, Ev::DrespArrive(seq, t))); }
            Ev::DrespArrive(seq, t4) => {
                let h = Hdr::new(wire::T_DELAY_RESP, MASTER, seq);
                let f = Frame::new(h, Body::DelayResp { receive: Ts::from_ns(t4 as u128), requesting: PortId { clock: [5; 8], port: 1 } }).encode();
                let s = handle!(port.handle_general_receive(&f), t); drop(s);
            }
            Ev::FilterTimer => { timers[1] = None; let s = handle!(port.handle_filter_update_timer(), t); drop(s); }
            Ev::RcptTimer => { timers[2] = None; let s = handle!(port.handle_announce_receipt_timer(), t); drop(s); let _ = NoForwardedTLVs; }
        }
        let o = osc.borrow();
        for (c, v) in &o.cmds[cmds_before..] {
            if *c == 'f' { out(json!({"e": "freq", "t": ((t - BASE) / 1e9) as i64, "fin": v.is_finite(), "mag": (v.abs() * 1000.0 - 1e-6).ceil().max(0.0).min(1e9) as i64})); }
            else { out(json!({"e": "step", "t": ((t - BASE) / 1e9) as i64, "fin": v.is_finite(), "mag": (v.abs() * 1e9).min(2e9) as i64})); }
        }
    }
    if !became_slave { return Err("the port never became slave".into()); }
    Ok(())
}

fn main() {
    vh::quiet_panics();
    let args: Vec<String> = std::env::args().collect();
    let mut seed = 1u64;
    let mut runs = 8usize;
    let mut trace = String::new();
    let mut dir = String::from(".");
    let mut stats = false;
    let mut i = 1;
    while i < args.len() {
        match args[i].as_str() {
            "--seed" => { seed = args[i + 1].parse().unwrap(); i += 1; }
            "--runs" => { runs = args[i + 1].parse().unwrap(); i += 1; }
            "--trace" => { trace = args[i + 1].clone(); i += 1; }
            "--replay-dir" => { dir = args[i + 1].clone(); i += 1; }
            "--stats" => stats = true,
            _ => {}
        }
        i += 1;
    }
    let _ = &dir;
    // the grid of the property: offsets, oscillator errors, delays, jitters, intervals, one/two-step; `runs` cells are taken per seed
    let offs = [0.0, 999e-6, -999e-6, 1.001e-3, -1.001e-3, 1.0, -1.0, 10.0, -10.0];
    let errs = [0.0, 50.0, -50.0, 150.0, -150.0];
    let delays = [1.0, 100.0, 400.0];
    let jits = [0.0, 1.0, 20.0];
    let logs = [-3i8, 0, 1];
    let mut cells = vec![];
    for o in offs { for e in errs { for d in delays { for j in jits { for l in logs { for two in [false, true] { cells.push((o, e, d, j, l, two)); } } } } } }
    let mut x = seed;
    let mut summary = vec![];
    let mut failures: Vec<Value> = vec![];
    let mut chunk_file: Option<std::io::BufWriter<std::fs::File>> = None;
    let mut chunks = 0usize;
    let mut in_chunk = 0usize;
    for k in 0..runs.min(cells.len()) {
        x = splitmix(x.wrapping_add(k as u64));
        // quick tiers sample the grid; the corners are always in
        let c = if k < 4 { [(10.0, 150.0, 400.0, 20.0, 1i8, true), (-10.0, -150.0, 1.0, 0.0, -3i8, false), (1.001e-3, 150.0, 100.0, 1.0, 0i8, true), (0.0, -150.0, 400.0, 20.0, -3i8, false)][k] } else { cells[(x % cells.len() as u64) as usize] };
        let tconv = 1200.0f64.max(600.0 * 2f64.powi(c.4 as i32));
        let late_ts = if k < 4 { k % 2 == 1 } else { (x >> 17) & 1 == 1 };
        let p = Params { offset_s: c.0, err_ppm: c.1, delay_us: c.2, jitter_us: c.3, log_sync: c.4, two_step: c.5, late_ts, duration_s: tconv + 200.0, seed: x };
        if !trace.is_empty() && (chunk_file.is_none() || in_chunk > 12000) {
            if let Some(mut f) = chunk_file.take() { f.flush().unwrap(); }
            chunk_file = Some(std::io::BufWriter::new(std::fs::File::create(format!("{}.{}.ndjson", trace, chunks)).unwrap()));
            chunks += 1;
            in_chunk = 0;
        }
        let mut f = chunk_file.take();
        let mut tail_max = 0i64; let mut last_bad = 0i64; let mut steps_after = 0;
        let bound = 500 + (3.0 * c.3 * 1000.0) as i64;      // Bound(j) = 0.5 us + 3 j, frozen after calibration on the unchanged tree
        let mut emit = |v: Value| {
            if v["e"] == "obs" { let t = v["t"].as_i64().unwrap(); let o = v["off"].as_i64().unwrap(); if t as f64 >= tconv { tail_max = tail_max.max(o); } if o > bound { last_bad = t; } }
            if v["e"] == "step" && v["t"].as_i64().unwrap() as f64 >= tconv { steps_after += 1; }
            if let Some(f) = f.as_mut() { writeln!(f, "{}", v).unwrap(); in_chunk += 1; }
        };
        emit(json!({"e": "new", "tconv": tconv as i64, "bound": bound, "maxf": 400000, "thr": 999999}));
        let res = std::panic::catch_unwind(std::panic::AssertUnwindSafe(|| run(&p, &mut emit)));
        drop(emit);
        chunk_file = f;
        let row = json!({"offset_s": c.0, "err_ppm": c.1, "delay_us": c.2, "jitter_us": c.3, "log_sync": c.4, "two_step": c.5, "late_ts": late_ts, "tconv_s": tconv, "bound_ns": bound, "tail_max_ns": tail_max, "last_above_bound_s": last_bad, "steps_after_tconv": steps_after});
        match res { Ok(Ok(())) => {}, Ok(Err(e)) => failures.push(json!({"cell": row, "error": e})), Err(_) => failures.push(json!({"cell": row, "error": "panic"})) }
        summary.push(row);
    }
    if stats { for s in &summary { eprintln!("{}", s); } }
    if let Some(mut f) = chunk_file.take() { f.flush().unwrap(); }
    println!("{}", json!({"runs": summary.len(), "trace_chunks": chunks, "cells": summary, "failures": failures}));
}
