//! C18: (a) replay of Overlay.tla edges on the real OverlayClock over a mock
//! underlying clock; (b) randomised sequences (length up to 50, ppm in
//! [-500, 500] with fractional parts, steps within +-10 s, advances 0..10^4 s,
//! underlying clock starting anywhere in the PTP range) against an exact
//! integer model. After every operation: reading = exact value (within 2 ns +
//! 2^-30 of the elapsed time, the resolution of the implementation's fixed
//! point factor), returned time = reading, time_from_underlying = reading.
use std::cell::Cell;
use std::io::BufRead;
use std::rc::Rc;

use serde_json::{json, Value};
use statime::config::TimePropertiesDS;
use statime::time::{Duration, Time};
use statime::{Clock, OverlayClock};
use vh::collab::{dur_from_bits, time_bits, time_from_bits};
use vh::world::splitmix;

/// the underlying clock: bits (2^-32 ns); every read returns the current value and then moves the clock on by `tick` whole
/// nanoseconds (a real clock never stands still between two reads inside one call); `last` is the value of the latest read
#[derive(Clone)]
struct Under { t: Rc<Cell<u128>>, tick: u128, last: Rc<Cell<u128>> }
impl Clock for Under {
    type Error = ();
    fn now(&self) -> Time { let v = self.t.get(); self.t.set(v + (self.tick << 32)); self.last.set(v); time_from_bits(v) }
    fn step_clock(&mut self, _: Duration) -> Result<Time, ()> { Err(()) }
    fn set_frequency(&mut self, _: f64) -> Result<Time, ()> { Err(()) }
    fn set_properties(&mut self, _: &TimePropertiesDS) -> Result<(), ()> { Ok(()) }
}

/// exact model in units of 10^-9 ns: the reading (relative to start) is r0 at underlying time u0 (whole ns since start) and
/// advances (1 + uppm / 10^12) units per unit of underlying time; uppm = ppm * 10^6
struct Exact { r0: i128, u0: i128, uppm: i128 }
impl Exact {
    fn at(&self, u: i128) -> i128 { self.r0 + (u - self.u0) * 1_000_000_000 + ((u - self.u0) * self.uppm) / 1000 }
}

fn to_units(t: Time, start_ns: i128) -> i128 {
    // reading in 1e-9 ns relative to start, from 2^-32 ns bits (rounded)
    let bits = time_bits(t) as i128 - (start_ns << 32);
    (bits * 1_000_000_000) >> 32
}

fn check(what: &str, got: i128, want: i128, elapsed_ns: i128) -> Option<String> {
    // 2 ns + 2^-40 of the elapsed time. What is unavoidable is far less (the 2^-32 ns resolution of the fixed point, the ppm value
    // rounded to 2^-32 when it enters it: below 0.01 ns over 10^4 s); a rate taken through a 32 bit fraction of ppm/10^6 is off by
    // up to 1.2e-10 of the elapsed time (hundreds of ns over the 10^4 s of the property) and is not "(1 + ppm/10^6) times the rate"
    let tol = 2_000_000_000i128 + (elapsed_ns.abs() * 1_000_000_000 >> 40);
    if (got - want).abs() > tol { Some(format!("{}: reading {} ns, exact {} ns (difference {} ns)", what, got as f64 / 1e9, want as f64 / 1e9, (got - want) as f64 / 1e9)) } else { None }
}

/// run a sequence of ops; ops: ("adv", ns) ("freq", mppm) ("ufreq", micro-ppm) ("step", ns); the underlying clock moves by `tick`
/// ns at every read. Returns first failure.
fn run_tick(start_ns: u128, ops: &[(String, i128)], tick: u128) -> Option<String> {
    let under = Under { t: Rc::new(Cell::new(start_ns << 32)), tick, last: Rc::new(Cell::new(start_ns << 32)) };
    let mut ov = OverlayClock::new(under.clone());
    let mut m = Exact { r0: 0, u0: 0, uppm: 0 };
    let s = start_ns as i128;
    let last_u = |u: &Under| -> i128 { (u.last.get() >> 32) as i128 - s };
    let slack = 1_000_000_000i128;      // 1 ns
    for (i, (k, x)) in ops.iter().enumerate() {
        let before = to_units(ov.now(), s);
        let ub = last_u(&under);
        let r = std::panic::catch_unwind(std::panic::AssertUnwindSafe(|| -> Option<String> {
            match k.as_str() {
                "adv" => {
                    under.t.set(under.t.get() + ((*x as u128) << 32));
                    None
                }
                "freq" | "ufreq" => {
                    let up = if k == "freq" { *x * 1000 } else { *x };
                    let ret = ov.set_frequency(up as f64 / 1e6).unwrap();
                    // the call anchors the new rate at one instant inside the call; the reading is continuous there
                    let ua = last_u(&under);
                    m = Exact { r0: m.at(ua), u0: ua, uppm: up };
                    let now = to_units(ov.now(), s);
                    let uc = last_u(&under);
                    let moved = (now - before) - (m.at(uc) - m.at(ub));
                    if moved.abs() > 2 * slack { return Some(format!("op {}: set_frequency moved the reading by {} ns", i, moved as f64 / 1e9)); }
                    let r = to_units(ret, s);
                    if r < m.at(ub) - slack || r > m.at(uc) + slack { return Some(format!("op {}: set_frequency returned {} ns, the clock read {} ns before and {} ns after the call", i, r as f64 / 1e9, before as f64 / 1e9, now as f64 / 1e9)); }
                    None
                }
                "step" => {
                    let ret = ov.step_clock(dur_from_bits(*x << 32)).unwrap();
                    let ua = last_u(&under);
                    m = Exact { r0: m.at(ua) + x * 1_000_000_000, u0: ua, uppm: m.uppm };
                    let now = to_units(ov.now(), s);
                    let uc = last_u(&under);
                    let moved = (now - before) - (m.at(uc) - m.at(ub));
                    if (moved - x * 1_000_000_000).abs() > 2 * slack { return Some(format!("op {}: step_clock({} ns) moved the reading by {} ns", i, x, moved as f64 / 1e9)); }
                    let r = to_units(ret, s);
                    if r < m.at(ub) - slack || r > m.at(uc) + slack { return Some(format!("op {}: step_clock returned {} ns, the stepped clock reads {} ns after the call", i, r as f64 / 1e9, now as f64 / 1e9)); }
                    None
                }
                _ => None,
            }
        }));
        match r {
            Err(_) => return Some(format!("op {} ({} {}) panicked", i, k, x)),
            Ok(Some(e)) => return Some(e),
            Ok(None) => {}
        }
        let now = to_units(ov.now(), s);
        let u = last_u(&under);
        if let Some(e) = check(&format!("after op {} ({} {}){}", i, k, x, if tick > 0 { format!(" [underlying clock moving {} ns per read]", tick) } else { String::new() }), now, m.at(u), u) { return Some(e); }
        let conv = to_units(ov.time_from_underlying(time_from_bits(under.last.get())), s);
        if (conv - now).abs() > slack { return Some(format!("op {}: time_from_underlying gives {} ns, the clock reads {} ns", i, conv as f64 / 1e9, now as f64 / 1e9)); }
    }
    None
}

/// every sequence is run three ways: (1) as given on a clock that stands still during a call; (2) on a clock that moves 1 us at
/// every read; (3) with every frequency command p refined into two commands (p - 0.0004 ppm, then p) with no time between them -
/// in the model that is the same step SetFrequency(p); a servo close to lock sends such nearly equal values
fn run(start_ns: u128, ops: &[(String, i128)]) -> Option<String> {
    if let Some(e) = run_tick(start_ns, ops, 0) { return Some(e); }
    if let Some(e) = run_tick(start_ns, ops, 1000) { return Some(e); }
    if ops.iter().any(|(k, _)| k == "freq") {
        let mut fine: Vec<(String, i128)> = vec![];
        for (k, x) in ops {
            if k == "freq" { fine.push(("ufreq".to_string(), x * 1000 - 400)); fine.push(("ufreq".to_string(), x * 1000)); } else { fine.push((k.clone(), *x)); }
        }
        if let Some(e) = run_tick(start_ns, &fine, 0) { return Some(format!("{} [frequency commands refined into (p - 0.0004 ppm, p)]", e)); }
    }
    None
}

fn main() {
    vh::quiet_panics();
    let args: Vec<String> = std::env::args().collect();
    let mut mode = String::from("random");
    let mut runs = 2000u64;
    let mut seed = 1u64;
    let mut dir = String::from(".");
    let mut one = String::new();
    let mut i = 1;
    while i < args.len() {
        match args[i].as_str() {
            "--edges" => mode = "edges".into(),
            "--runs" => { runs = args[i + 1].parse().unwrap(); i += 1; }
            "--seed" => { seed = args[i + 1].parse().unwrap(); i += 1; }
            "--replay-dir" => { dir = args[i + 1].clone(); i += 1; }
            "--one" => { one = args[i + 1].clone(); i += 1; }
            _ => {}
        }
        i += 1;
    }
    let mut viol: Vec<Value> = vec![];
    let mut n = 0u64;
    let mut record = |start: u128, ops: &Vec<(String, i128)>, e: String, viol: &mut Vec<Value>| {
        if viol.len() < 5 {
            let path = format!("{}/overlay-{}.json", dir, viol.len());
            std::fs::create_dir_all(&dir).ok();
            std::fs::write(&path, serde_json::to_string_pretty(&json!({"kind": "overlay", "start_ns": start.to_string(), "ops": ops.iter().map(|(k, x)| json!([k, x.to_string()])).collect::<Vec<_>>(), "detail": e})).unwrap()).ok();
            viol.push(json!({"detail": e, "replay": path}));
        }
    };
    if !one.is_empty() {
        let v: Value = serde_json::from_str(&std::fs::read_to_string(&one).unwrap()).unwrap();
        let ops: Vec<(String, i128)> = v["ops"].as_array().unwrap().iter().map(|o| (o[0].as_str().unwrap().to_string(), o[1].as_str().unwrap().parse().unwrap())).collect();
        let r = run(v["start_ns"].as_str().unwrap().parse().unwrap(), &ops);
        println!("{:?}", r);
        std::process::exit(if r.is_some() { 1 } else { 0 });
    }
    let mut samples = vec![];
    if mode == "edges" {
        let starts: [u128; 3] = [1_000_000_000_000, 1_700_000_000_000_000_000, (1u128 << 62)]; // 1000 s (room for the negative steps of a sequence), today, 2^62 ns
        for line in std::io::stdin().lock().lines() {
            let line = line.unwrap();
            let s = match line.strip_prefix("<<\"E\", ").and_then(|s| s.strip_suffix(">>")) { Some(s) => s, None => { eprintln!("{}", line); continue; } };
            let inner: String = serde_json::from_str(s).unwrap();
            let e: Value = serde_json::from_str(&inner).unwrap();
            let ops: Vec<(String, i128)> = e["hist"].as_array().unwrap().iter().map(|h| match h["e"].as_str().unwrap() {
                "adv" => ("adv".to_string(), h["du"].as_i64().unwrap() as i128 * 1_000_000_000),
                "freq" => ("freq".to_string(), h["ppm"].as_i64().unwrap() as i128 * 1000),
                _ => ("step".to_string(), h["d"].as_i64().unwrap() as i128 * 1000),
            }).collect();
            n += 1;
            let start = starts[(n % 3) as usize] + (splitmix(seed ^ n) % 1_000_000_000) as u128;
            if samples.len() < 3 && ops.len() >= 4 && n % 211 == 0 { samples.push(json!({"start_ns": start.to_string(), "ops": ops.iter().map(|(k, x)| json!([k, x.to_string()])).collect::<Vec<_>>(), "model_reading_us": e["exp"]["r"]})); }
            // the model's reading (microseconds) must equal the harness's exact value: ties the two oracles together
            let mut m: i128 = 0; let mut mp: i128 = 0;
            for (k, x) in &ops { match k.as_str() { "adv" => m += x * (1_000_000_000 + mp), "freq" => mp = *x, _ => m += x * 1_000_000_000 } }
            if m != e["exp"]["r"].as_i64().unwrap() as i128 * 1_000_000_000_000 { eprintln!("oracle mismatch"); std::process::exit(2); }
            if let Some(err) = run(start, &ops) { record(start, &ops, err, &mut viol); }
        }
    } else {
        for idx in 0..runs {
            let mut x = splitmix(seed.wrapping_mul(0x5851f42d4c957f2d).wrapping_add(idx));
            let mut nx = || { x = splitmix(x); x };
            let start: u128 = match idx % 4 { 0 => 0, 1 => nx() as u128 % (1u128 << 63), 2 => ((1u128 << 63) - 1) - 600_000_000_000_000, _ => 1_700_000_000_000_000_000 + nx() as u128 % 1_000_000_000 };
            let len = 1 + nx() % 50;
            let mut ops = vec![];
            let mut total_adv: i128 = 0;
            for _ in 0..len {
                match nx() % 3 {
                    0 => { let a = [0i128, 1, 999_999_999, 1_000_000_000, 10_000_000_000_000][(nx() % 5) as usize].max((nx() % 10_000_000_000_000) as i128 * ((nx() % 2) as i128)); if total_adv + a < 500_000_000_000_000 { total_adv += a; ops.push(("adv".to_string(), a)); } }
                    1 => { let p = [-500_000i128, -100_000, 0, 1, 100_000, 500_000][(nx() % 6) as usize]; let p = if nx() % 2 == 0 { p } else { (nx() % 1_000_001) as i128 - 500_000 }; ops.push(("freq".to_string(), p)); }
                    _ => { let d = [-10_000_000_000i128, -1_000_000, -1, 0, 1, 1_000_000, 10_000_000_000][(nx() % 7) as usize]; let d = if nx() % 2 == 0 { d } else { (nx() % 20_000_000_001) as i128 - 10_000_000_000 };
                           // keep the reading inside the representable range when starting at 0
                           ops.push(("step".to_string(), if start < 20_000_000_000 * (len as u128) && d < 0 { -d } else { d })); }
                }
            }
            n += 1;
            if samples.len() < 3 && ops.len() > 5 { samples.push(json!({"start_ns": start.to_string(), "ops": ops.iter().map(|(k, x)| json!([k, x.to_string()])).collect::<Vec<_>>()})); }
            if let Some(err) = run(start, &ops) { record(start, &ops, err, &mut viol); }
        }
    }
    println!("{}", json!({"sequences": n, "samples": samples, "violations": viol}));
}
