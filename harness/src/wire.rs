//! Independent PTPv2 codec, written from IEEE 1588-2019 Clause 13 (header 13.3,
//! bodies 13.5-13.13, TLVs 14.1). Shares no code with statime. Used to build
//! input frames for the real ports and to parse the frames they emit.

use serde_json::{json, Value};

#[derive(Clone, Copy, Debug, PartialEq, Eq, Default, PartialOrd, Ord, Hash)]
pub struct PortId {
    pub clock: [u8; 8],
    pub port: u16,
}

/// 10-octet timestamp: 48 bit seconds, 32 bit nanoseconds
#[derive(Clone, Copy, Debug, PartialEq, Eq, Default)]
pub struct Ts {
    pub secs: u64,
    pub nanos: u32,
}

impl Ts {
    pub fn from_ns(ns: u128) -> Ts {
        Ts {
            secs: (ns / 1_000_000_000) as u64,
            nanos: (ns % 1_000_000_000) as u32,
        }
    }
    pub fn ns(&self) -> u128 {
        self.secs as u128 * 1_000_000_000 + self.nanos as u128
    }
}

pub const T_SYNC: u8 = 0;
pub const T_DELAY_REQ: u8 = 1;
pub const T_PDELAY_REQ: u8 = 2;
pub const T_PDELAY_RESP: u8 = 3;
pub const T_FOLLOW_UP: u8 = 8;
pub const T_DELAY_RESP: u8 = 9;
pub const T_PDELAY_RESP_FUP: u8 = 10;
pub const T_ANNOUNCE: u8 = 11;
pub const T_SIGNALING: u8 = 12;
pub const T_MANAGEMENT: u8 = 13;

// flagField octet 0
pub const F0_ALTERNATE_MASTER: u8 = 0x01;
pub const F0_TWO_STEP: u8 = 0x02;
pub const F0_UNICAST: u8 = 0x04;
// flagField octet 1
pub const F1_LEAP61: u8 = 0x01;
pub const F1_LEAP59: u8 = 0x02;
pub const F1_UTC_VALID: u8 = 0x04;
pub const F1_PTP_TIMESCALE: u8 = 0x08;
pub const F1_TIME_TRACEABLE: u8 = 0x10;
pub const F1_FREQ_TRACEABLE: u8 = 0x20;

#[derive(Clone, Debug, PartialEq, Eq)]
pub struct Hdr {
    pub msg_type: u8,
    pub sdo_id: u16, // 12 bit: majorSdoId (high nibble of octet 0) and minorSdoId (octet 5)
    pub version: u8, // versionPTP (low nibble octet 1)
    pub minor: u8,   // minorVersionPTP (high nibble octet 1)
    pub length: u16,
    pub domain: u8,
    pub flags: [u8; 2],
    pub correction: i64, // scaled ns (2^-16 ns)
    pub src: PortId,
    pub seq: u16,
    pub control: u8,
    pub log_interval: i8,
}

impl Hdr {
    pub fn new(msg_type: u8, src: PortId, seq: u16) -> Hdr {
        Hdr {
            msg_type,
            sdo_id: 0,
            version: 2,
            minor: 1,
            length: 0,
            domain: 0,
            flags: [0, 0],
            correction: 0,
            src,
            seq,
            control: control_for(msg_type),
            log_interval: 0,
        }
    }
}

pub fn control_for(t: u8) -> u8 {
    match t {
        T_SYNC => 0,
        T_DELAY_REQ => 1,
        T_FOLLOW_UP => 2,
        T_DELAY_RESP => 3,
        T_MANAGEMENT => 4,
        _ => 5,
    }
}

#[derive(Clone, Debug, PartialEq, Eq)]
pub enum Body {
    Sync { origin: Ts },
    DelayReq { origin: Ts },
    PdelayReq { origin: Ts },
    PdelayResp { request_receipt: Ts, requesting: PortId },
    FollowUp { precise_origin: Ts },
    DelayResp { receive: Ts, requesting: PortId },
    PdelayRespFup { response_origin: Ts, requesting: PortId },
    Announce(Ann),
    Signaling { target: PortId },
    Management { raw: [u8; 14] },
}

#[derive(Clone, Debug, PartialEq, Eq, Default)]
pub struct Ann {
    pub origin: Ts,
    pub utc_offset: i16,
    pub p1: u8,
    pub class: u8,
    pub accuracy: u8,
    pub variance: u16,
    pub p2: u8,
    pub gm: [u8; 8],
    pub steps: u16,
    pub time_source: u8,
}

#[derive(Clone, Debug, PartialEq, Eq)]
pub struct Frame {
    pub hdr: Hdr,
    pub body: Body,
    pub tlvs: Vec<(u16, Vec<u8>)>,
}

pub fn body_len(t: u8) -> Option<usize> {
    Some(match t {
        T_SYNC | T_DELAY_REQ | T_FOLLOW_UP => 10,
        T_PDELAY_REQ | T_PDELAY_RESP | T_DELAY_RESP | T_PDELAY_RESP_FUP => 20,
        T_ANNOUNCE => 30,
        T_SIGNALING => 10,
        T_MANAGEMENT => 14,
        _ => return None,
    })
}

fn put_ts(b: &mut Vec<u8>, t: &Ts) {
    b.extend_from_slice(&t.secs.to_be_bytes()[2..8]);
    b.extend_from_slice(&t.nanos.to_be_bytes());
}
fn put_pid(b: &mut Vec<u8>, p: &PortId) {
    b.extend_from_slice(&p.clock);
    b.extend_from_slice(&p.port.to_be_bytes());
}
fn get_ts(b: &[u8]) -> Ts {
    let mut s = [0u8; 8];
    s[2..8].copy_from_slice(&b[0..6]);
    Ts {
        secs: u64::from_be_bytes(s),
        nanos: u32::from_be_bytes([b[6], b[7], b[8], b[9]]),
    }
}
fn get_pid(b: &[u8]) -> PortId {
    let mut c = [0u8; 8];
    c.copy_from_slice(&b[0..8]);
    PortId {
        clock: c,
        port: u16::from_be_bytes([b[8], b[9]]),
    }
}

impl Frame {
    pub fn new(hdr: Hdr, body: Body) -> Frame {
        Frame {
            hdr,
            body,
            tlvs: vec![],
        }
    }

    /// Encode; the header length field is computed unless `hdr.length != 0`
    pub fn encode(&self) -> Vec<u8> {
        let mut b = Vec::with_capacity(128);
        let h = &self.hdr;
        b.push((((h.sdo_id >> 8) as u8) << 4) | (h.msg_type & 0x0f));
        b.push((h.minor << 4) | (h.version & 0x0f));
        b.extend_from_slice(&[0, 0]); // length, patched below
        b.push(h.domain);
        b.push((h.sdo_id & 0xff) as u8);
        b.push(h.flags[0]);
        b.push(h.flags[1]);
        b.extend_from_slice(&h.correction.to_be_bytes());
        b.extend_from_slice(&[0, 0, 0, 0]); // messageTypeSpecific
        put_pid(&mut b, &h.src);
        b.extend_from_slice(&h.seq.to_be_bytes());
        b.push(h.control);
        b.push(h.log_interval as u8);
        debug_assert_eq!(b.len(), 34);
        match &self.body {
            Body::Sync { origin } | Body::DelayReq { origin } => put_ts(&mut b, origin),
            Body::PdelayReq { origin } => {
                put_ts(&mut b, origin);
                b.extend_from_slice(&[0; 10]);
            }
            Body::PdelayResp {
                request_receipt,
                requesting,
            } => {
                put_ts(&mut b, request_receipt);
                put_pid(&mut b, requesting);
            }
            Body::FollowUp { precise_origin } => put_ts(&mut b, precise_origin),
            Body::DelayResp { receive, requesting } => {
                put_ts(&mut b, receive);
                put_pid(&mut b, requesting);
            }
            Body::PdelayRespFup {
                response_origin,
                requesting,
            } => {
                put_ts(&mut b, response_origin);
                put_pid(&mut b, requesting);
            }
            Body::Announce(a) => {
                put_ts(&mut b, &a.origin);
                b.extend_from_slice(&a.utc_offset.to_be_bytes());
                b.push(0);
                b.push(a.p1);
                b.push(a.class);
                b.push(a.accuracy);
                b.extend_from_slice(&a.variance.to_be_bytes());
                b.push(a.p2);
                b.extend_from_slice(&a.gm);
                b.extend_from_slice(&a.steps.to_be_bytes());
                b.push(a.time_source);
            }
            Body::Signaling { target } => put_pid(&mut b, target),
            Body::Management { raw } => b.extend_from_slice(raw),
        }
        for (t, v) in &self.tlvs {
            b.extend_from_slice(&t.to_be_bytes());
            b.extend_from_slice(&(v.len() as u16).to_be_bytes());
            b.extend_from_slice(v);
        }
        let len = if h.length != 0 { h.length } else { b.len() as u16 };
        b[2..4].copy_from_slice(&len.to_be_bytes());
        b
    }

    /// Decode per Clause 13: the message occupies octets 0..messageLength of
    /// the buffer; the TLV suffix must tile the rest of the message exactly.
    pub fn decode(b: &[u8]) -> Result<Frame, String> {
        if b.len() < 34 {
            return Err("short header".into());
        }
        let msg_type = b[0] & 0x0f;
        let blen = body_len(msg_type).ok_or("unknown type")?;
        let length = u16::from_be_bytes([b[2], b[3]]);
        if (length as usize) < 34 {
            return Err("length < 34".into());
        }
        if length as usize > b.len() {
            return Err("length > buffer".into());
        }
        if (length as usize) < 34 + blen {
            return Err("length < body".into());
        }
        let hdr = Hdr {
            msg_type,
            sdo_id: (((b[0] >> 4) as u16) << 8) | b[5] as u16,
            version: b[1] & 0x0f,
            minor: b[1] >> 4,
            length,
            domain: b[4],
            flags: [b[6], b[7]],
            correction: i64::from_be_bytes(b[8..16].try_into().unwrap()),
            src: get_pid(&b[20..30]),
            seq: u16::from_be_bytes([b[30], b[31]]),
            control: b[32],
            log_interval: b[33] as i8,
        };
        let c = &b[34..length as usize];
        let body = match msg_type {
            T_SYNC => Body::Sync { origin: get_ts(c) },
            T_DELAY_REQ => Body::DelayReq { origin: get_ts(c) },
            T_PDELAY_REQ => Body::PdelayReq { origin: get_ts(c) },
            T_PDELAY_RESP => Body::PdelayResp {
                request_receipt: get_ts(c),
                requesting: get_pid(&c[10..20]),
            },
            T_FOLLOW_UP => Body::FollowUp {
                precise_origin: get_ts(c),
            },
            T_DELAY_RESP => Body::DelayResp {
                receive: get_ts(c),
                requesting: get_pid(&c[10..20]),
            },
            T_PDELAY_RESP_FUP => Body::PdelayRespFup {
                response_origin: get_ts(c),
                requesting: get_pid(&c[10..20]),
            },
            T_ANNOUNCE => Body::Announce(Ann {
                origin: get_ts(c),
                utc_offset: i16::from_be_bytes([c[10], c[11]]),
                p1: c[13],
                class: c[14],
                accuracy: c[15],
                variance: u16::from_be_bytes([c[16], c[17]]),
                p2: c[18],
                gm: c[19..27].try_into().unwrap(),
                steps: u16::from_be_bytes([c[27], c[28]]),
                time_source: c[29],
            }),
            T_SIGNALING => Body::Signaling {
                target: get_pid(&c[0..10]),
            },
            T_MANAGEMENT => Body::Management {
                raw: c[0..14].try_into().unwrap(),
            },
            _ => unreachable!(),
        };
        let mut tlvs = vec![];
        let mut r = &c[blen..];
        while !r.is_empty() {
            if r.len() < 4 {
                return Err("trailing octets in suffix".into());
            }
            let t = u16::from_be_bytes([r[0], r[1]]);
            let l = u16::from_be_bytes([r[2], r[3]]) as usize;
            if l % 2 != 0 {
                return Err("odd tlv length".into());
            }
            if r.len() < 4 + l {
                return Err("truncated tlv".into());
            }
            tlvs.push((t, r[4..4 + l].to_vec()));
            r = &r[4 + l..];
        }
        Ok(Frame { hdr, body, tlvs })
    }

    pub fn type_name(&self) -> &'static str {
        match self.hdr.msg_type {
            T_SYNC => "Sync",
            T_DELAY_REQ => "DelayReq",
            T_PDELAY_REQ => "PdelayReq",
            T_PDELAY_RESP => "PdelayResp",
            T_FOLLOW_UP => "FollowUp",
            T_DELAY_RESP => "DelayResp",
            T_PDELAY_RESP_FUP => "PdelayRespFup",
            T_ANNOUNCE => "Announce",
            T_SIGNALING => "Signaling",
            T_MANAGEMENT => "Management",
            _ => "?",
        }
    }
}

pub fn hex(b: &[u8]) -> String {
    let mut s = String::with_capacity(b.len() * 2);
    for x in b {
        s.push_str(&format!("{:02x}", x));
    }
    s
}
pub fn unhex(s: &str) -> Vec<u8> {
    (0..s.len() / 2)
        .map(|i| u8::from_str_radix(&s[2 * i..2 * i + 2], 16).unwrap())
        .collect()
}

/// TLV type propagates on Announce (IEEE 1588-2019 Table 52: PATH_TRACE,
/// ALTERNATE_TIME_OFFSET_INDICATOR, and the 0x4000-0x7FFF "propagate" ranges)
pub fn tlv_propagates(t: u16) -> bool {
    t == 8 || t == 9 || (0x4000..=0x7fff).contains(&t)
}

pub fn pid_json(p: &PortId) -> Value {
    json!([hex(&p.clock), p.port])
}
