//! Harness-owned collaborators of a port: recording clock, recording filter,
//! scripted rng, recording (nesting-detecting) state mutex.

use std::cell::{Cell, RefCell, UnsafeCell};
use std::rc::Rc;

use rand::RngCore;
use statime::config::TimePropertiesDS;
use statime::filters::{Filter, FilterEstimate, FilterUpdate};
use statime::port::Measurement;
use statime::time::{Duration, Time};
use statime::{Clock, PtpInstanceState, PtpInstanceStateMutex};

// ---------------------------------------------------------------- clock

#[derive(Clone, Debug, PartialEq)]
pub enum ClockCall {
    SetFreq(f64),
    Step(i128),
    SetProps(TimePropertiesDS),
}

#[derive(Default, Debug)]
pub struct Shared {
    /// (port index 0-based, call)
    pub clock_log: RefCell<Vec<(usize, ClockCall)>>,
    /// (port index, filter event)
    pub filter_log: RefCell<Vec<(usize, FilterEv)>>,
    pub now_bits: Cell<u128>,
    pub clock_fail: Cell<bool>,
    /// value returned as next_update by the recording filter's `update`
    pub filter_next_update_ns: Cell<Option<u64>>,
    /// what the recording filter reports as its current estimates (offset, mean delay; 2^-32 ns)
    pub est_offset_bits: Cell<i128>,
    pub est_delay_bits: Cell<i128>,
}

#[derive(Clone, Debug, PartialEq)]
pub enum FilterEv {
    New,
    Measurement(Measurement),
    Update,
    Demobilize,
}

#[derive(Clone, Debug)]
pub struct RecClock {
    pub port: usize,
    pub sh: Rc<Shared>,
}

pub fn time_bits(t: Time) -> u128 {
    t.nanos().to_bits()
}
pub fn dur_bits(d: Duration) -> i128 {
    d.nanos().to_bits()
}
pub fn time_from_bits(b: u128) -> Time {
    Time::from_fixed_nanos(fixed::types::U96F32::from_bits(b))
}
pub fn dur_from_bits(b: i128) -> Duration {
    Duration::from_fixed_nanos(fixed::types::I96F32::from_bits(b))
}

impl Clock for RecClock {
    type Error = String;
    fn now(&self) -> Time {
        time_from_bits(self.sh.now_bits.get())
    }
    fn step_clock(&mut self, offset: Duration) -> Result<Time, Self::Error> {
        self.sh
            .clock_log
            .borrow_mut()
            .push((self.port, ClockCall::Step(dur_bits(offset))));
        if self.sh.clock_fail.get() {
            Err("scripted failure".into())
        } else {
            Ok(self.now())
        }
    }
    fn set_frequency(&mut self, ppm: f64) -> Result<Time, Self::Error> {
        self.sh
            .clock_log
            .borrow_mut()
            .push((self.port, ClockCall::SetFreq(ppm)));
        if self.sh.clock_fail.get() {
            Err("scripted failure".into())
        } else {
            Ok(self.now())
        }
    }
    fn set_properties(&mut self, tp: &TimePropertiesDS) -> Result<(), Self::Error> {
        self.sh
            .clock_log
            .borrow_mut()
            .push((self.port, ClockCall::SetProps(*tp)));
        if self.sh.clock_fail.get() {
            Err("scripted failure".into())
        } else {
            Ok(())
        }
    }
}

// ---------------------------------------------------------------- filter

/// Recording filter. Behaviour (mirrored by the specification):
/// * `measurement(m)`: logged; if `m.offset` is present the clock is "steered"
///   (`set_frequency(1.0)`); returns `mean_delay = m.delay` (or `m.peer_delay`).
/// * `update`: logged; returns the scripted `next_update`.
/// * `demobilize`: logged; issues one final `set_frequency(0.0)`.
#[derive(Debug)]
pub struct RecFilter {
    port: usize,
    sh: Rc<Shared>,
}

#[derive(Clone, Debug)]
pub struct RecFilterCfg {
    pub port: usize,
    pub sh: Rc<Shared>,
}

impl Filter for RecFilter {
    type Config = RecFilterCfg;
    fn new(c: Self::Config) -> Self {
        c.sh.filter_log.borrow_mut().push((c.port, FilterEv::New));
        RecFilter {
            port: c.port,
            sh: c.sh,
        }
    }
    fn measurement<C: Clock>(&mut self, m: Measurement, clock: &mut C) -> FilterUpdate {
        self.sh
            .filter_log
            .borrow_mut()
            .push((self.port, FilterEv::Measurement(m)));
        if m.offset.is_some() {
            let _ = clock.set_frequency(1.0);
        }
        FilterUpdate {
            next_update: None,
            mean_delay: m.delay.or(m.peer_delay),
        }
    }
    fn update<C: Clock>(&mut self, _clock: &mut C) -> FilterUpdate {
        self.sh
            .filter_log
            .borrow_mut()
            .push((self.port, FilterEv::Update));
        FilterUpdate {
            next_update: self
                .sh
                .filter_next_update_ns
                .get()
                .map(core::time::Duration::from_nanos),
            mean_delay: None,
        }
    }
    fn demobilize<C: Clock>(self, clock: &mut C) {
        self.sh
            .filter_log
            .borrow_mut()
            .push((self.port, FilterEv::Demobilize));
        let _ = clock.set_frequency(0.0);
    }
    fn current_estimates(&self) -> FilterEstimate {
        FilterEstimate {
            offset_from_master: dur_from_bits(self.sh.est_offset_bits.get()),
            mean_delay: dur_from_bits(self.sh.est_delay_bits.get()),
        }
    }
}

// ---------------------------------------------------------------- rng

/// Scripted rng: every draw returns the same 64-bit pattern; draws are counted.
#[derive(Debug, Clone)]
pub struct ScriptRng {
    pub value: u64,
    pub draws: Rc<Cell<u32>>,
}

impl ScriptRng {
    pub fn new(value: u64) -> Self {
        ScriptRng {
            value,
            draws: Rc::new(Cell::new(0)),
        }
    }
}

impl RngCore for ScriptRng {
    fn next_u32(&mut self) -> u32 {
        self.draws.set(self.draws.get() + 1);
        (self.value >> 32) as u32
    }
    fn next_u64(&mut self) -> u64 {
        self.draws.set(self.draws.get() + 1);
        self.value
    }
    fn fill_bytes(&mut self, dest: &mut [u8]) {
        self.draws.set(self.draws.get() + 1);
        for (i, b) in dest.iter_mut().enumerate() {
            *b = (self.value >> (8 * (i % 8))) as u8;
        }
    }
    fn try_fill_bytes(&mut self, dest: &mut [u8]) -> Result<(), rand::Error> {
        self.fill_bytes(dest);
        Ok(())
    }
}

// ---------------------------------------------------------------- mutex

thread_local! {
    /// log of lock operations of the current thread: 'R' / 'W' per completed
    /// acquisition, 'N' when a nested acquisition was attempted, 'P' when a
    /// closure unwound while holding the lock (the analogue of poisoning)
    pub static LOCK_LOG: RefCell<String> = RefCell::new(String::new());
    /// when set, every write span also logs which data sets it changed:
    /// "W[dcpt..]" (d=default c=current p=parent t=timeprops h=path)
    pub static LOCK_DETAIL: Cell<bool> = Cell::new(false);
}

pub fn lock_log_take() -> String {
    LOCK_LOG.with(|l| std::mem::take(&mut *l.borrow_mut()))
}

pub struct RecMutex {
    state: UnsafeCell<PtpInstanceState>,
    held: Cell<u8>,
}

struct HeldGuard<'a>(&'a Cell<u8>, bool);
impl Drop for HeldGuard<'_> {
    fn drop(&mut self) {
        self.0.set(0);
        if !self.1 {
            // dropped during unwind
            LOCK_LOG.with(|l| l.borrow_mut().push('P'));
        }
    }
}

/// marker used in the panic message of the nested-lock detector
pub const NESTED_MSG: &str = "VERIF nested acquisition of the instance state lock";

fn fields_of(s: &PtpInstanceState) -> [String; 5] {
    // Debug output of PtpInstanceState is `PtpInstanceState { default_ds: .., current_ds: .., parent_ds: .., path_trace_ds: .., time_properties_ds: .. }`
    let d = format!("{:?}", s);
    let keys = [
        "default_ds:",
        "current_ds:",
        "parent_ds:",
        "path_trace_ds:",
        "time_properties_ds:",
    ];
    let mut idx: Vec<usize> = keys.iter().map(|k| d.find(k).unwrap_or(0)).collect();
    idx.push(d.len());
    let mut out: [String; 5] = Default::default();
    for i in 0..5 {
        out[i] = d[idx[i]..idx[i + 1]].to_string();
    }
    out
}

impl RecMutex {
    pub fn debug_state(&self) -> String {
        // only called between operations
        unsafe { format!("{:?}", &*self.state.get()) }
    }
}

impl PtpInstanceStateMutex for RecMutex {
    fn new(state: PtpInstanceState) -> Self {
        RecMutex {
            state: UnsafeCell::new(state),
            held: Cell::new(0),
        }
    }
    fn with_ref<R, F: FnOnce(&PtpInstanceState) -> R>(&self, f: F) -> R {
        if self.held.get() != 0 {
            LOCK_LOG.with(|l| l.borrow_mut().push('N'));
            panic!("{}", NESTED_MSG);
        }
        self.held.set(1);
        let mut g = HeldGuard(&self.held, false);
        let r = f(unsafe { &*self.state.get() });
        g.1 = true;
        drop(g);
        LOCK_LOG.with(|l| l.borrow_mut().push('R'));
        r
    }
    fn with_mut<R, F: FnOnce(&mut PtpInstanceState) -> R>(&self, f: F) -> R {
        if self.held.get() != 0 {
            LOCK_LOG.with(|l| l.borrow_mut().push('N'));
            panic!("{}", NESTED_MSG);
        }
        self.held.set(2);
        let detail = LOCK_DETAIL.with(|d| d.get());
        let before = if detail {
            Some(fields_of(unsafe { &*self.state.get() }))
        } else {
            None
        };
        let mut g = HeldGuard(&self.held, false);
        let r = f(unsafe { &mut *self.state.get() });
        g.1 = true;
        drop(g);
        LOCK_LOG.with(|l| {
            let mut l = l.borrow_mut();
            l.push('W');
            if let Some(b) = before {
                let a = fields_of(unsafe { &*self.state.get() });
                l.push('[');
                for (i, c) in ['d', 'c', 'p', 'h', 't'].iter().enumerate() {
                    if a[i] != b[i] {
                        l.push(*c);
                    }
                }
                l.push(']');
            }
        });
        r
    }
}
