//! A real `PtpInstance` with real `Port`s, driven by abstract JSON events and
//! projected to an abstract JSON observation (the projection function π).

use std::cell::Cell;
use std::collections::HashMap;
use std::panic::{catch_unwind, AssertUnwindSafe};
use std::rc::Rc;

use serde_json::{json, Map, Value};
use statime::config::{
    ClockAccuracy, ClockIdentity, ClockQuality, DelayMechanism, InstanceConfig, LeapIndicator,
    PortConfig, PtpMinorVersion, SdoId, TimePropertiesDS, TimeSource,
};
use statime::port::{
    ForwardedTLV, ForwardedTLVProvider, InBmca, NoForwardedTLVs, Port, PortAction,
    PortActionIterator, Running, TimestampContext,
};
use statime::time::Interval;
use statime::{PtpInstance, PtpInstanceStateMutex};
use statime_linux::tlvforwarder::TlvForwarder;

use crate::collab::*;
use crate::wire::{self, Ann, Body, Frame, Hdr, PortId, Ts};

pub type Aml = Option<Vec<ClockIdentity>>;
pub type RPort<S> = Port<'static, Running, Aml, ScriptRng, RecClock, RecFilter, S>;
pub type BPort<S> = Port<'static, InBmca, Aml, ScriptRng, RecClock, RecFilter, S>;

// ------------------------------------------------------------------ config

#[derive(Clone, Debug)]
pub struct GmAttr {
    pub id: u32,
    pub p1: u8,
    pub class: u8,
    pub acc: u8,
    pub var: u16,
    pub p2: u8,
}

#[derive(Clone, Debug)]
pub struct Tp {
    pub utc: Option<i16>,
    pub leap: u8, // 0, 59, 61
    pub tt: bool,
    pub ft: bool,
    pub ptp: bool,
    pub src: u8,
}

#[derive(Clone, Debug)]
pub struct PortCfg {
    pub p2p: bool,
    pub mo: bool,
    pub log_ann: i8,
    pub timeout: u8,
    pub log_sync: i8,
    pub log_dreq: i8,
    pub asym: Option<String>,
    pub aml: Option<Vec<u32>>,
    pub minor: u8,
}

#[derive(Clone, Debug)]
pub struct Cfg {
    pub own: GmAttr,
    pub so: bool,
    pub ptrace: bool,
    pub domain: u8,
    pub sdo: u16,
    pub tp0: Tp,
    pub ports: Vec<PortCfg>,
    pub gms: HashMap<String, GmAttr>,
    pub tps: HashMap<String, Tp>,
    pub seed: u64,
    pub fwd: bool,
    pub empty_on_bmca: bool,
    pub rng: u64,
    pub id_pos: usize,
    pub id_fill: u8,
}

fn gu(v: &Value, k: &str, d: u64) -> u64 {
    v.get(k).and_then(|x| x.as_u64()).unwrap_or(d)
}
fn gi(v: &Value, k: &str, d: i64) -> i64 {
    v.get(k).and_then(|x| x.as_i64()).unwrap_or(d)
}
fn gb(v: &Value, k: &str, d: bool) -> bool {
    v.get(k).and_then(|x| x.as_bool()).unwrap_or(d)
}

pub fn parse_gm(v: &Value) -> GmAttr {
    GmAttr {
        id: gu(v, "id", 1) as u32,
        p1: gu(v, "p1", 128) as u8,
        class: gu(v, "class", 248) as u8,
        acc: gu(v, "acc", 0xfe) as u8,
        var: gu(v, "var", 0xffff) as u16,
        p2: gu(v, "p2", 128) as u8,
    }
}
pub fn parse_tp(v: &Value) -> Tp {
    Tp {
        utc: v.get("utc").and_then(|x| x.as_i64()).filter(|x| *x != 99999).map(|x| x as i16),
        leap: gu(v, "leap", 0) as u8,
        tt: gb(v, "tt", false),
        ft: gb(v, "ft", false),
        ptp: gb(v, "ptp", false),
        src: gu(v, "src", 0xa0) as u8,
    }
}

impl Cfg {
    pub fn from_json(v: &Value) -> Cfg {
        let empty = json!({});
        let own = v.get("own").unwrap_or(&empty);
        let ports = v
            .get("ports")
            .and_then(|p| p.as_array())
            .map(|a| {
                a.iter()
                    .map(|p| PortCfg {
                        p2p: gb(p, "p2p", false),
                        mo: gb(p, "mo", false),
                        log_ann: gi(p, "log_ann", 0) as i8,
                        timeout: gu(p, "timeout", 3) as u8,
                        log_sync: gi(p, "log_sync", 0) as i8,
                        log_dreq: gi(p, "log_dreq", 0) as i8,
                        asym: p.get("asym").and_then(|x| x.as_str()).map(|s| s.to_string()),
                        aml: p.get("aml").and_then(|x| x.as_array()).map(|a| {
                            a.iter().map(|x| x.as_u64().unwrap() as u32).collect()
                        }),
                        minor: gu(p, "minor", 1) as u8,
                    })
                    .collect()
            })
            .unwrap_or_default();
        let mut gms = HashMap::new();
        if let Some(m) = v.get("gms").and_then(|g| g.as_object()) {
            for (k, g) in m {
                gms.insert(k.clone(), parse_gm(g));
            }
        }
        if let Some(a) = v.get("gms").and_then(|g| g.as_array()) {
            // TLC sequences arrive as arrays: index from 1
            for (i, g) in a.iter().enumerate() {
                gms.insert((i + 1).to_string(), parse_gm(g));
            }
        }
        let mut tps = HashMap::new();
        if let Some(m) = v.get("tps").and_then(|g| g.as_object()) {
            for (k, g) in m {
                tps.insert(k.clone(), parse_tp(g));
            }
        }
        if let Some(a) = v.get("tps").and_then(|g| g.as_array()) {
            for (i, g) in a.iter().enumerate() {
                tps.insert((i + 1).to_string(), parse_tp(g));
            }
        }
        let seed = gu(v, "seed", 1);
        Cfg {
            own: parse_gm(own),
            so: gb(own, "so", false),
            ptrace: gb(own, "ptrace", false),
            domain: gu(own, "domain", 0) as u8,
            sdo: gu(own, "sdo", 0) as u16,
            tp0: parse_tp(v.get("tp0").unwrap_or(&empty)),
            ports,
            gms,
            tps,
            seed,
            fwd: gb(v, "fwd", false),
            empty_on_bmca: gb(v, "empty_on_bmca", false),
            rng: v
                .get("rng")
                .and_then(|x| x.as_u64())
                .unwrap_or(0x8000_0000_0000_0000),
            id_pos: (splitmix(seed ^ 0x1d) % 8) as usize,
            id_fill: (splitmix(seed ^ 0x2e) % 200) as u8 + 20,
        }
    }

    /// order-preserving injection of abstract clock ids (0..=255) into 8-octet identities
    pub fn clock_id(&self, n: u32) -> [u8; 8] {
        let mut b = [self.id_fill; 8];
        b[self.id_pos] = n as u8;
        b
    }
    pub fn clock_abs(&self, c: &[u8; 8]) -> Value {
        let mut ok = true;
        for (i, x) in c.iter().enumerate() {
            if i != self.id_pos && *x != self.id_fill {
                ok = false;
            }
        }
        if ok {
            json!(c[self.id_pos])
        } else {
            json!(wire::hex(c))
        }
    }
    pub fn pid(&self, v: &Value) -> PortId {
        let a = v.as_array().expect("port id must be [clk, port]");
        PortId {
            clock: self.clock_id(a[0].as_u64().unwrap() as u32),
            port: a[1].as_u64().unwrap() as u16,
        }
    }
    pub fn pid_abs(&self, p: &PortId) -> Value {
        json!([self.clock_abs(&p.clock), p.port])
    }
    pub fn gm(&self, key: &Value) -> GmAttr {
        let k = match key {
            Value::String(s) => s.clone(),
            Value::Number(n) => n.to_string(),
            Value::Object(_) => return parse_gm(key),
            Value::Array(a) => {
                // <<p1, class, acc, var, p2, id>> as used by the specification
                let n = |i: usize| a[i].as_u64().unwrap();
                return GmAttr { p1: n(0) as u8, class: n(1) as u8, acc: n(2) as u8, var: n(3) as u16, p2: n(4) as u8, id: n(5) as u32 };
            }
            _ => "own".into(),
        };
        if k == "own" {
            self.own.clone()
        } else {
            self.gms
                .get(&k)
                .unwrap_or_else(|| panic!("unknown gm key {}", k))
                .clone()
        }
    }
    pub fn tp(&self, key: Option<&Value>) -> Tp {
        match key {
            None | Some(Value::Null) => Tp {
                utc: None,
                leap: 0,
                tt: false,
                ft: false,
                ptp: true,
                src: 0xa0,
            },
            Some(Value::Object(_)) => parse_tp(key.unwrap()),
            Some(Value::String(s)) => self.tps.get(s).expect("unknown tp key").clone(),
            Some(Value::Number(n)) => self
                .tps
                .get(&n.to_string())
                .expect("unknown tp key")
                .clone(),
            _ => panic!("bad tp key"),
        }
    }
}

pub fn splitmix(mut x: u64) -> u64 {
    x = x.wrapping_add(0x9e3779b97f4a7c15);
    let mut z = x;
    z = (z ^ (z >> 30)).wrapping_mul(0xbf58476d1ce4e5b9);
    z = (z ^ (z >> 27)).wrapping_mul(0x94d049bb133111eb);
    z ^ (z >> 31)
}
fn fnv(s: &str) -> u64 {
    let mut h: u64 = 0xcbf29ce484222325;
    for b in s.bytes() {
        h ^= b as u64;
        h = h.wrapping_mul(0x100000001b3);
    }
    h
}

/// Concrete values for symbolic names. A name is `base` or `base#class`.
/// First letter of the base decides the kind: `t` local timestamp (2^-32 ns
/// resolution), `w` wire timestamp (whole ns), `c` correction field (i64,
/// 2^-16 ns), `a` asymmetry (duration).
#[derive(Clone, Debug)]
pub struct Vals {
    pub seed: u64,
}

impl Vals {
    fn h(&self, name: &str, salt: u64) -> u64 {
        splitmix(self.seed.wrapping_mul(0x9e37).wrapping_add(salt) ^ fnv(name))
    }
    /// time in 2^-32 ns units
    pub fn time(&self, name: &str) -> u128 {
        // "=<decimal>": a literal value (used by the network simulation, whose timestamps mean something)
        if let Some(lit) = name.strip_prefix('=') {
            return lit.parse::<u128>().expect("literal time");
        }
        let (base, class) = match name.split_once('#') {
            Some((b, c)) => (b, c),
            None => (name, ""),
        };
        let wire = base.starts_with('w');
        let v: u128 = match class {
            "zero" => 0,
            "one" => 1u128 << 32,
            "sub" => 1,
            "sec" => ((1_700_000_000u128 + (self.h(base, 1) % 1000) as u128) * 1_000_000_000) << 32,
            "secm" => {
                (((1_700_000_000u128 + (self.h(base, 1) % 1000) as u128) * 1_000_000_000) << 32) - 1
            }
            "max48" => (((1u128 << 48) - 1) * 1_000_000_000 + 999_999_999) << 32 | 0xffff_ffff,
            "max63" => (((1u128 << 63) - 1) << 32) | 0xffff_ffff,
            _ => {
                let ns = 1_700_000_000_000_000_000u128 + (self.h(base, 2) % 1_000_000_000_000) as u128;
                (ns << 32) | (self.h(base, 3) & 0xffff_ffff) as u128
            }
        };
        if wire {
            v & !0xffff_ffffu128
        } else {
            v
        }
    }
    /// correction field in 2^-16 ns units
    pub fn corr(&self, name: &str) -> i64 {
        // "=<decimal>": a literal value in 2^-16 ns
        if let Some(lit) = name.strip_prefix('=') {
            return lit.parse::<i64>().expect("literal correction");
        }
        let (base, class) = match name.split_once('#') {
            Some((b, c)) => (b, c),
            None => (name, ""),
        };
        match class {
            "zero" => 0,
            "max" => i64::MAX,
            "min" => i64::MIN,
            "neg1" => -(1 << 16),
            "pos1" => 1 << 16,
            "sub1" => 1,
            "nsub1" => -1,
            _ => {
                let h = self.h(base, 4);
                let mag = (h % (1u64 << 40)) as i64;
                if h & (1 << 63) != 0 {
                    -mag
                } else {
                    mag
                }
            }
        }
    }
    /// duration in 2^-32 ns units
    pub fn dur(&self, name: &str) -> i128 {
        let (base, class) = match name.split_once('#') {
            Some((b, c)) => (b, c),
            None => (name, ""),
        };
        match class {
            "zero" => 0,
            _ => {
                let h = self.h(base, 5);
                let mag = (h % (1u64 << 44)) as i128;
                if h & (1 << 63) != 0 {
                    -mag
                } else {
                    mag
                }
            }
        }
    }
    /// value of a name in 2^-32 ns units, as a signed number
    pub fn any(&self, name: &str) -> i128 {
        match name.as_bytes()[0] {
            b't' | b'w' => self.time(name) as i128,
            b'c' => (self.corr(name) as i128) << 16,
            _ => self.dur(name),
        }
    }
}

/// Evaluate a symbolic form (expression tree as emitted by the specification):
/// leaf `{"v": name}`, `{"op":"add"|"sub","l":..,"r":..}`, `{"op":"half","x":..}`,
/// `{"op":"neg","x":..}`, `{"op":"zero"}`. Result in 2^-32 ns units.
pub fn eval_form(vals: &Vals, f: &Value) -> Result<i128, String> {
    if let Some(n) = f.get("v").and_then(|x| x.as_str()) {
        return Ok(vals.any(n));
    }
    let op = f.get("op").and_then(|x| x.as_str()).ok_or("form without op")?;
    Ok(match op {
        "zero" => 0,
        "add" => eval_form(vals, &f["l"])?
            .checked_add(eval_form(vals, &f["r"])?)
            .ok_or("overflow")?,
        "sub" => eval_form(vals, &f["l"])?
            .checked_sub(eval_form(vals, &f["r"])?)
            .ok_or("overflow")?,
        "neg" => -eval_form(vals, &f["x"])?,
        // statime divides the I96F32 by 2 (fixed-point division truncates toward zero); the property only asks
        // for sub-nanosecond precision, so the comparison allows one unit of 2^-32 ns per halving (see halvings())
        "half" => eval_form(vals, &f["x"])? / 2,
        _ => return Err(format!("unknown op {}", op)),
    })
}
/// number of halvings in a form: the tolerance (in units of 2^-32 ns) of its comparison
pub fn halvings(f: &Value) -> i128 {
    if f.get("v").is_some() {
        return 0;
    }
    match f.get("op").and_then(|x| x.as_str()) {
        Some("half") => 1 + halvings(&f["x"]),
        Some("neg") => halvings(&f["x"]),
        Some("add") | Some("sub") => halvings(&f["l"]) + halvings(&f["r"]),
        _ => 0,
    }
}
pub fn is_form(v: &Value) -> bool {
    v.is_object() && (v.get("v").is_some() || v.get("op").is_some())
}

// ------------------------------------------------------------------ world

pub enum Slot<S: PtpInstanceStateMutex + 'static> {
    Run(RPort<S>),
    Bmca(BPort<S>),
    Taken,
}

pub enum RawAct {
    Timer(&'static str, core::time::Duration),
    SendEvent(Vec<u8>, bool, TimestampContext),
    SendGeneral(Vec<u8>, bool),
    Forward(ForwardedTLV<'static>),
}

fn collect(it: PortActionIterator<'_>) -> Vec<RawAct> {
    it.map(|a| match a {
        PortAction::SendEvent {
            context,
            data,
            link_local,
        } => RawAct::SendEvent(data.to_vec(), link_local, context),
        PortAction::SendGeneral { data, link_local } => RawAct::SendGeneral(data.to_vec(), link_local),
        PortAction::ResetAnnounceTimer { duration } => RawAct::Timer("ann", duration),
        PortAction::ResetSyncTimer { duration } => RawAct::Timer("sync", duration),
        PortAction::ResetDelayRequestTimer { duration } => RawAct::Timer("dreq", duration),
        PortAction::ResetAnnounceReceiptTimer { duration } => RawAct::Timer("rcpt", duration),
        PortAction::ResetFilterUpdateTimer { duration } => RawAct::Timer("filt", duration),
        PortAction::ForwardTLV { tlv } => RawAct::Forward(tlv.into_owned()),
    })
    .collect()
}

/// A TLV provider following only the documented contract of
/// `ForwardedTLVProvider::next_if_smaller` ("provide the next available TLV,
/// unless it is larger than max_size"): FIFO, returns the head iff size <= max.
pub struct FifoProvider {
    pub q: std::collections::VecDeque<ForwardedTLV<'static>>,
    cur: Option<ForwardedTLV<'static>>,
}
impl ForwardedTLVProvider for FifoProvider {
    fn next_if_smaller(&mut self, max_size: usize) -> Option<ForwardedTLV<'_>> {
        if self.q.front().map(|t| t.size() <= max_size).unwrap_or(false) {
            self.cur = self.q.pop_front();
            self.cur.clone()
        } else {
            None
        }
    }
}

pub struct World<S: PtpInstanceStateMutex + 'static> {
    pub cfg: Cfg,
    inst: *mut PtpInstance<RecFilter, S>,
    pub ports: Vec<Slot<S>>,
    pub sh: Rc<Shared>,
    pub draws: Vec<Rc<Cell<u32>>>,
    pub ctxs: Vec<Vec<Option<TimestampContext>>>,
    pub fwd: Vec<TlvForwarder>,
    pub vals: Vals,
    pub panics: u32,
    /// include the raw octets of emitted frames in the abstract actions (network simulations deliver them)
    pub keep_bytes: bool,
}

impl<S: PtpInstanceStateMutex + 'static> Drop for World<S> {
    fn drop(&mut self) {
        self.ports.clear();
        unsafe {
            drop(Box::from_raw(self.inst));
        }
    }
}

fn tp_to_ds(t: &Tp) -> TimePropertiesDS {
    TimePropertiesDS {
        current_utc_offset: t.utc,
        leap_indicator: match t.leap {
            59 => LeapIndicator::Leap59,
            61 => LeapIndicator::Leap61,
            _ => LeapIndicator::NoLeap,
        },
        time_traceable: t.tt,
        frequency_traceable: t.ft,
        ptp_timescale: t.ptp,
        time_source: time_source_of(t.src),
    }
}
pub fn tp_json(t: &TimePropertiesDS) -> Value {
    json!({
        "utc": t.current_utc_offset,
        "leap": match t.leap_indicator { LeapIndicator::Leap59 => 59, LeapIndicator::Leap61 => 61, _ => 0 },
        "tt": t.time_traceable, "ft": t.frequency_traceable, "ptp": t.ptp_timescale,
        "src": t.time_source.to_primitive(),
    })
}


/// IEEE 1588-2019 Table 6 (timeSource enumeration), independent of statime's own mapping
pub fn time_source_of(v: u8) -> TimeSource {
    match v {
        0x10 => TimeSource::AtomicClock,
        0x20 => TimeSource::Gnss,
        0x30 => TimeSource::TerrestrialRadio,
        0x39 => TimeSource::SerialTimeCode,
        0x40 => TimeSource::Ptp,
        0x50 => TimeSource::Ntp,
        0x60 => TimeSource::HandSet,
        0x90 => TimeSource::Other,
        0xa0 => TimeSource::InternalOscillator,
        0xf0..=0xfe => TimeSource::ProfileSpecific(v - 0xf0),
        0xff => TimeSource::Reserved,
        _ => TimeSource::Unknown(v),
    }
}
/// IEEE 1588-2019 Table 5 (clockAccuracy enumeration)
pub fn accuracy_of(v: u8) -> ClockAccuracy {
    use ClockAccuracy::*;
    const T: [ClockAccuracy; 27] = [
        PS1, PS2_5, PS10, PS25, PS100, PS250, NS1, NS2_5, NS10, NS25, NS100, NS250, US1, US2_5, US10,
        US25, US100, US250, MS1, MS2_5, MS10, MS25, MS100, MS250, S1, S10, SGT10,
    ];
    match v {
        0x17..=0x31 => T[(v - 0x17) as usize],
        0x80..=0xfd => ProfileSpecific(v - 0x80),
        0xfe => Unknown,
        _ => Reserved,
    }
}

pub fn quality(g: &GmAttr) -> ClockQuality {
    ClockQuality {
        clock_class: g.class,
        clock_accuracy: accuracy_of(g.acc),
        offset_scaled_log_variance: g.var,
    }
}

impl<S: PtpInstanceStateMutex + 'static> World<S> {
    pub fn new(cfg: Cfg) -> World<S> {
        let icfg = InstanceConfig {
            clock_identity: ClockIdentity(cfg.clock_id(cfg.own.id)),
            priority_1: cfg.own.p1,
            priority_2: cfg.own.p2,
            domain_number: cfg.domain,
            sdo_id: SdoId::try_from(cfg.sdo).unwrap(),
            slave_only: cfg.so,
            path_trace: cfg.ptrace,
            clock_quality: quality(&cfg.own),
        };
        let inst = Box::into_raw(Box::new(PtpInstance::<RecFilter, S>::new(
            icfg,
            tp_to_ds(&cfg.tp0),
        )));
        let iref: &'static PtpInstance<RecFilter, S> = unsafe { &*inst };
        let sh = Rc::new(Shared::default());
        let vals = Vals { seed: cfg.seed };
        sh.now_bits.set(vals.time("tnow"));
        let base = TlvForwarder::new();
        let mut ports = vec![];
        let mut draws = vec![];
        let mut ctxs = vec![];
        let mut fwd = vec![];
        for (i, pc) in cfg.ports.iter().enumerate() {
            let rng = ScriptRng::new(cfg.rng);
            draws.push(rng.draws.clone());
            let interval = Interval::from_log_2(pc.log_dreq);
            let pcfg = PortConfig {
                acceptable_master_list: pc.aml.as_ref().map(|l| {
                    l.iter()
                        .map(|n| ClockIdentity(cfg.clock_id(*n)))
                        .collect::<Vec<_>>()
                }),
                delay_mechanism: if pc.p2p {
                    DelayMechanism::P2P { interval }
                } else {
                    DelayMechanism::E2E { interval }
                },
                announce_interval: Interval::from_log_2(pc.log_ann),
                announce_receipt_timeout: pc.timeout,
                sync_interval: Interval::from_log_2(pc.log_sync),
                master_only: pc.mo,
                delay_asymmetry: pc
                    .asym
                    .as_ref()
                    .map(|n| dur_from_bits(vals.dur(n)))
                    .unwrap_or_default(),
                minor_ptp_version: if pc.minor == 0 {
                    PtpMinorVersion::Zero
                } else {
                    PtpMinorVersion::One
                },
            };
            let p = iref.add_port(
                pcfg,
                RecFilterCfg {
                    port: i,
                    sh: sh.clone(),
                },
                RecClock {
                    port: i,
                    sh: sh.clone(),
                },
                rng,
            );
            ports.push(Slot::Bmca(p));
            ctxs.push(vec![]);
            fwd.push(base.duplicate());
        }
        drop(base);
        World {
            cfg,
            inst,
            ports,
            sh,
            draws,
            ctxs,
            fwd,
            vals,
            panics: 0,
            keep_bytes: false,
        }
    }

    pub fn inst(&self) -> &'static PtpInstance<RecFilter, S> {
        unsafe { &*self.inst }
    }

    /// `end_bmca` on every port; returns the initial pending actions (abstract)
    pub fn start(&mut self) -> Value {
        let mut outs = vec![];
        for i in 0..self.ports.len() {
            let slot = std::mem::replace(&mut self.ports[i], Slot::Taken);
            if let Slot::Bmca(p) = slot {
                let (r, acts) = p.end_bmca();
                let raw = collect(acts);
                self.ports[i] = Slot::Run(r);
                outs.push(self.absorb(i, raw));
            } else {
                self.ports[i] = slot;
                outs.push(json!([]));
            }
        }
        Value::Array(outs)
    }

    fn clear_logs(&self) {
        self.sh.clock_log.borrow_mut().clear();
        self.sh.filter_log.borrow_mut().clear();
        lock_log_take();
    }

    pub fn expected_rcpt(&self, p: usize) -> core::time::Duration {
        use rand::Rng;
        let pc = &self.cfg.ports[p];
        let mut r = ScriptRng::new(self.cfg.rng);
        let factor = 1.0 + r.sample::<f64, _>(rand::distributions::Open01);
        core::time::Duration::from_secs_f64(2f64.powi(pc.log_ann as i32))
            .mul_f64(factor * pc.timeout as f64)
    }
    pub fn expected_dreq(&self, p: usize) -> core::time::Duration {
        use rand::Rng;
        let pc = &self.cfg.ports[p];
        let mut r = ScriptRng::new(self.cfg.rng);
        let factor = 2.0 * r.sample::<f64, _>(rand::distributions::Open01);
        core::time::Duration::from_secs_f64(2f64.powi(pc.log_dreq as i32)).mul_f64(factor)
    }

    /// Turn raw actions of port `p` into abstract JSON, performing the host's
    /// side effects (storing timestamp contexts, forwarding TLVs).
    fn absorb(&mut self, p: usize, raw: Vec<RawAct>) -> Value {
        let mut out = vec![];
        for a in raw {
            match a {
                RawAct::Timer(k, d) => {
                    let pc = &self.cfg.ports[p];
                    let interval = |l: i8| core::time::Duration::from_secs_f64(2f64.powi(l as i32));
                    let class = if d.is_zero() {
                        json!("0")
                    } else {
                        match k {
                            "ann" if d == interval(pc.log_ann) => json!("I"),
                            "sync" if d == interval(pc.log_sync) => json!("I"),
                            "rcpt" if d == self.expected_rcpt(p) => json!("R"),
                            "dreq" if d == self.expected_dreq(p) => json!("R"),
                            "filt" if Some(d.as_nanos() as u64) == self.sh.filter_next_update_ns.get() => json!("U"),
                            _ => json!(d.as_nanos() as u64),
                        }
                    };
                    out.push(json!({"a": "T", "k": k, "d": class, "ns": d.as_nanos() as u64}));
                }
                RawAct::SendEvent(data, ll, ctx) => {
                    self.ctxs[p].push(Some(ctx));
                    let mut f = self.frame_json(&data);
                    let o = f.as_object_mut().unwrap();
                    o.insert("a".into(), json!("E"));
                    o.insert("ll".into(), json!(ll));
                    o.insert("ctx".into(), json!(self.ctxs[p].len()));
                    if self.keep_bytes { o.insert("hex".into(), json!(wire::hex(&data))); }
                    out.push(f);
                }
                RawAct::SendGeneral(data, ll) => {
                    let mut f = self.frame_json(&data);
                    let o = f.as_object_mut().unwrap();
                    o.insert("a".into(), json!("G"));
                    o.insert("ll".into(), json!(ll));
                    if self.keep_bytes { o.insert("hex".into(), json!(wire::hex(&data))); }
                    out.push(f);
                }
                RawAct::Forward(tlv) => {
                    let (ty, val, snd) = tlv.verif_parts();
                    let sndp = PortId {
                        clock: snd.clock_identity.0,
                        port: snd.port_number,
                    };
                    out.push(json!({"a": "F", "tlv": self.tlv_abs(ty, &val), "size": tlv.size(), "snd": self.cfg.pid_abs(&sndp)}));
                    if self.cfg.fwd {
                        self.fwd[p].forward(tlv);
                    }
                }
            }
        }
        Value::Array(out)
    }

    // -------------------------------------------------------------- TLVs

    pub fn tlv_bytes(&self, t: &Value) -> (u16, Vec<u8>) {
        // [type, valueLen, tag]  or  {"path":[ids]}
        if let Some(path) = t.get("path").and_then(|p| p.as_array()) {
            let mut v = vec![];
            for id in path {
                v.extend_from_slice(&self.cfg.clock_id(id.as_u64().unwrap() as u32));
            }
            return (8, v);
        }
        let (ty, len, tag) = if let Some(a) = t.as_array() {
            (a[0].as_u64().unwrap() as u16, a[1].as_u64().unwrap() as usize, a.get(2).and_then(|x| x.as_u64()).unwrap_or(0) as usize)
        } else {
            (gu(t, "ty", 0) as u16, gu(t, "len", 0) as usize, gu(t, "tag", 0) as usize)
        };
        ((ty), (0..len).map(|i| ((tag * 31 + i * 7 + 1) & 0xff) as u8).collect())
    }
    pub fn tlv_abs(&self, ty: u16, val: &[u8]) -> Value {
        if ty == 8 && val.len() % 8 == 0 {
            let ids: Vec<Value> = val
                .chunks(8)
                .map(|c| self.cfg.clock_abs(c.try_into().unwrap()))
                .collect();
            return json!({"ty": 8, "len": val.len(), "tag": 0, "path": ids});
        }
        let mut tag: i64 = if val.is_empty() { 0 } else { -1 };
        for cand in 0..32usize {
            if !val.is_empty()
                && val
                    .iter()
                    .enumerate()
                    .all(|(i, b)| *b == ((cand * 31 + i * 7 + 1) & 0xff) as u8)
            {
                tag = cand as i64;
                break;
            }
        }
        json!({"ty": ty, "len": val.len(), "tag": tag})
    }

    // -------------------------------------------------------------- frames

    /// decode an emitted frame with the independent decoder into abstract JSON
    pub fn frame_json(&self, data: &[u8]) -> Value {
        let selfdec = statime::fuzz::FuzzMessage::deserialize(data).is_ok();
        let f = match Frame::decode(data) {
            Ok(f) => f,
            Err(e) => {
                return json!({"t": "undecodable", "err": e, "len": data.len(), "selfdec": selfdec, "hex": wire::hex(data)})
            }
        };
        let mut m = Map::new();
        m.insert("t".into(), json!(f.type_name()));
        m.insert("len".into(), json!(data.len()));
        m.insert("mlen".into(), json!(f.hdr.length));
        m.insert("selfdec".into(), json!(selfdec));
        m.insert("seq".into(), json!(f.hdr.seq));
        m.insert("src".into(), self.cfg.pid_abs(&f.hdr.src));
        m.insert("dom".into(), json!(f.hdr.domain));
        m.insert("sdo".into(), json!(f.hdr.sdo_id));
        m.insert("ver".into(), json!(f.hdr.version));
        m.insert("minor".into(), json!(f.hdr.minor));
        m.insert("f0".into(), json!(f.hdr.flags[0]));
        m.insert("f1".into(), json!(f.hdr.flags[1]));
        m.insert("two".into(), json!(f.hdr.flags[0] & wire::F0_TWO_STEP != 0));
        m.insert("corr".into(), json!(((f.hdr.correction as i128) << 16).to_string()));
        m.insert("logi".into(), json!(f.hdr.log_interval));
        m.insert("ctl".into(), json!(f.hdr.control));
        let tsum = |ts: &Ts| -> Value {
            // (timestamp + correctionField) in 2^-32 ns units, as decimal string
            let v = ((ts.ns() as i128) << 32) + ((f.hdr.correction as i128) << 16);
            json!(v.to_string())
        };
        let tns = |ts: &Ts| -> Value { json!(((ts.ns() as i128) << 32).to_string()) };
        match &f.body {
            Body::Sync { origin } | Body::DelayReq { origin } | Body::PdelayReq { origin } => {
                m.insert("ts".into(), tns(origin));
            }
            Body::FollowUp { precise_origin } => {
                m.insert("ts".into(), tns(precise_origin));
                m.insert("tsum".into(), tsum(precise_origin));
            }
            Body::DelayResp { receive, requesting } => {
                m.insert("ts".into(), tns(receive));
                m.insert("tsum".into(), tsum(receive));
                m.insert("req".into(), self.cfg.pid_abs(requesting));
            }
            Body::PdelayResp {
                request_receipt,
                requesting,
            } => {
                m.insert("ts".into(), tns(request_receipt));
                m.insert("req".into(), self.cfg.pid_abs(requesting));
            }
            Body::PdelayRespFup {
                response_origin,
                requesting,
            } => {
                m.insert("ts".into(), tns(response_origin));
                m.insert("tsum".into(), tsum(response_origin));
                m.insert("req".into(), self.cfg.pid_abs(requesting));
            }
            Body::Announce(a) => {
                m.insert(
                    "gm".into(),
                    json!({"id": self.cfg.clock_abs(&a.gm), "p1": a.p1, "class": a.class, "acc": a.accuracy, "var": a.variance, "p2": a.p2}),
                );
                m.insert("steps".into(), json!(a.steps));
                m.insert(
                    "tp".into(),
                    json!({
                        "utc": if f.hdr.flags[1] & wire::F1_UTC_VALID != 0 { json!(a.utc_offset) } else { Value::Null },
                        "utcraw": a.utc_offset,
                        "leap": if f.hdr.flags[1] & wire::F1_LEAP59 != 0 { 59 } else if f.hdr.flags[1] & wire::F1_LEAP61 != 0 { 61 } else { 0 },
                        "tt": f.hdr.flags[1] & wire::F1_TIME_TRACEABLE != 0,
                        "ft": f.hdr.flags[1] & wire::F1_FREQ_TRACEABLE != 0,
                        "ptp": f.hdr.flags[1] & wire::F1_PTP_TIMESCALE != 0,
                        "src": a.time_source,
                    }),
                );
                m.insert("ots".into(), tns(&a.origin));
            }
            _ => {}
        }
        let tl: Vec<Value> = f.tlvs.iter().map(|(t, v)| self.tlv_abs(*t, v)).collect();
        m.insert("tlvs".into(), Value::Array(tl));
        Value::Object(m)
    }

    fn hdr_from(&self, ev: &Value, ty: u8) -> Hdr {
        let src = self.cfg.pid(&ev["src"]);
        let mut h = Hdr::new(ty, src, gu(ev, "seq", 0) as u16);
        h.domain = gu(ev, "dom", self.cfg.domain as u64) as u8;
        h.sdo_id = gu(ev, "sdo", self.cfg.sdo as u64) as u16;
        h.version = gu(ev, "ver", 2) as u8;
        h.minor = gu(ev, "minor", 1) as u8;
        if gb(ev, "two", false) {
            h.flags[0] |= wire::F0_TWO_STEP;
        }
        if let Some(f0) = ev.get("f0").and_then(|x| x.as_u64()) {
            h.flags[0] = f0 as u8;
        }
        if let Some(c) = ev.get("c").and_then(|x| x.as_str()) {
            h.correction = self.vals.corr(c);
        }
        h.log_interval = gi(ev, "logi", 0) as i8;
        h
    }
    fn wts(&self, ev: &Value, k: &str) -> Ts {
        match ev.get(k).and_then(|x| x.as_str()) {
            Some(n) => Ts::from_ns(self.vals.time(n) >> 32),
            None => Ts::default(),
        }
    }

    /// Build the frame of a receive event with the independent encoder
    pub fn build_frame(&self, ev: &Value) -> Vec<u8> {
        let e = ev["e"].as_str().unwrap();
        let mut fr = match e {
            "ann" => {
                let g = self.cfg.gm(ev.get("g").unwrap_or(&Value::Null));
                let tp = self.cfg.tp(ev.get("tp"));
                let mut h = self.hdr_from(ev, wire::T_ANNOUNCE);
                if ev.get("f1").is_none() {
                    if tp.leap == 61 {
                        h.flags[1] |= wire::F1_LEAP61;
                    }
                    if tp.leap == 59 {
                        h.flags[1] |= wire::F1_LEAP59;
                    }
                    if tp.utc.is_some() {
                        h.flags[1] |= wire::F1_UTC_VALID;
                    }
                    if tp.ptp {
                        h.flags[1] |= wire::F1_PTP_TIMESCALE;
                    }
                    if tp.tt {
                        h.flags[1] |= wire::F1_TIME_TRACEABLE;
                    }
                    if tp.ft {
                        h.flags[1] |= wire::F1_FREQ_TRACEABLE;
                    }
                } else {
                    h.flags[1] = gu(ev, "f1", 0) as u8;
                }
                let a = Ann {
                    origin: Ts::default(),
                    utc_offset: tp.utc.unwrap_or(gi(ev, "utcraw", 0) as i16),
                    p1: g.p1,
                    class: g.class,
                    accuracy: g.acc,
                    variance: g.var,
                    p2: g.p2,
                    gm: self.cfg.clock_id(g.id),
                    steps: gu(ev, "steps", 0) as u16,
                    time_source: tp.src,
                };
                let mut fr = Frame::new(h, Body::Announce(a));
                if let Some(path) = ev.get("path").and_then(|p| p.as_array()) {
                    fr.tlvs.push(self.tlv_bytes(&json!({ "path": path })));
                }
                fr
            }
            "sync" => {
                let mut h = self.hdr_from(ev, wire::T_SYNC);
                if !gb(ev, "two", false) {
                    h.flags[0] &= !wire::F0_TWO_STEP;
                }
                Frame::new(
                    h,
                    Body::Sync {
                        origin: self.wts(ev, "w1"),
                    },
                )
            }
            "fup" => Frame::new(
                self.hdr_from(ev, wire::T_FOLLOW_UP),
                Body::FollowUp {
                    precise_origin: self.wts(ev, "w1"),
                },
            ),
            "dresp" => Frame::new(
                self.hdr_from(ev, wire::T_DELAY_RESP),
                Body::DelayResp {
                    receive: self.wts(ev, "w4"),
                    requesting: self.cfg.pid(&ev["req"]),
                },
            ),
            "dreq" => Frame::new(
                self.hdr_from(ev, wire::T_DELAY_REQ),
                Body::DelayReq {
                    origin: self.wts(ev, "w3"),
                },
            ),
            "pdreq" => Frame::new(
                self.hdr_from(ev, wire::T_PDELAY_REQ),
                Body::PdelayReq {
                    origin: self.wts(ev, "w1"),
                },
            ),
            "pdresp" => Frame::new(
                self.hdr_from(ev, wire::T_PDELAY_RESP),
                Body::PdelayResp {
                    request_receipt: self.wts(ev, "w2"),
                    requesting: self.cfg.pid(&ev["req"]),
                },
            ),
            "pdfup" => Frame::new(
                self.hdr_from(ev, wire::T_PDELAY_RESP_FUP),
                Body::PdelayRespFup {
                    response_origin: self.wts(ev, "w3"),
                    requesting: self.cfg.pid(&ev["req"]),
                },
            ),
            "sig" => Frame::new(
                self.hdr_from(ev, wire::T_SIGNALING),
                Body::Signaling {
                    target: PortId {
                        clock: [0xff; 8],
                        port: 0xffff,
                    },
                },
            ),
            "mgmt" => Frame::new(
                self.hdr_from(ev, wire::T_MANAGEMENT),
                Body::Management { raw: [0; 14] },
            ),
            _ => panic!("not a frame event: {}", e),
        };
        if let Some(tl) = ev.get("tlvs").and_then(|t| t.as_array()) {
            for t in tl {
                fr.tlvs.push(self.tlv_bytes(t));
            }
        }
        let mut bytes = fr.encode();
        if let Some(extra) = ev.get("pad").and_then(|x| x.as_u64()) {
            // octets after the end of the message (transport padding)
            bytes.extend(std::iter::repeat(0u8).take(extra as usize));
        }
        if let Some(ml) = ev.get("mlen").and_then(|x| x.as_u64()) {
            bytes[2..4].copy_from_slice(&(ml as u16).to_be_bytes());
        }
        if let Some(cut) = ev.get("cut").and_then(|x| x.as_u64()) {
            bytes.truncate(cut as usize);
        }
        bytes
    }

    // -------------------------------------------------------------- step

    /// Execute one abstract event on the real objects. Returns the abstract
    /// result: `{"out":[..]}`, `{"pend":[[..],..]}` or `{"panic": msg}`.
    pub fn step(&mut self, ev: &Value) -> Value {
        self.clear_logs();
        let e = ev["e"].as_str().unwrap_or("");
        let p = gu(ev, "p", 1) as usize - 1;
        match e {
            "bmca" => {
                let ord: Option<Vec<usize>> = ev.get("ord").and_then(|o| o.as_array()).map(|a| a.iter().map(|x| x.as_u64().unwrap() as usize - 1).collect());
                return self.bmca(ord);
            }
            "so" => {
                let v = gb(ev, "v", true);
                let r = catch_unwind(AssertUnwindSafe(|| self.inst().set_slave_only(v)));
                return match r {
                    Ok(()) => json!({"out": []}),
                    Err(e) => self.panicked(e),
                };
            }
            "q" => {
                let g = match ev.get("q") {
                    Some(q) => GmAttr { class: gu(q, "class", 248) as u8, acc: gu(q, "acc", 254) as u8, var: gu(q, "var", 65535) as u16, ..self.cfg.own.clone() },
                    None => self.cfg.gm(&ev["g"]),
                };
                let r = catch_unwind(AssertUnwindSafe(|| self.inst().set_clock_quality(quality(&g))));
                return match r {
                    Ok(()) => json!({"out": []}),
                    Err(e) => self.panicked(e),
                };
            }
            "now" => {
                self.sh.now_bits.set(self.vals.time(ev["t"].as_str().unwrap()));
                return json!({"out": []});
            }
            "fwd_empty" => {
                self.fwd[p].empty();
                return json!({"out": []});
            }
            _ => {}
        }
        // events on a running port
        let bytes: Option<Vec<u8>> = match e {
            "raw" => Some(wire::unhex(ev["hex"].as_str().unwrap())),
            "ann" | "sync" | "fup" | "dresp" | "dreq" | "pdreq" | "pdresp" | "pdfup" | "sig" | "mgmt" => {
                Some(self.build_frame(ev))
            }
            _ => None,
        };
        let rx = ev
            .get("rx")
            .and_then(|x| x.as_str())
            .map(|n| time_from_bits(self.vals.time(n)));
        let chan_event = match ev.get("chan").and_then(|x| x.as_str()) {
            Some("e") => true,
            Some("g") => false,
            _ => matches!(e, "sync" | "dreq" | "pdreq" | "pdresp"),
        };
        let ts_ctx = if e == "ts" {
            let c = gu(ev, "c", 1) as usize;
            match self.ctxs[p].get_mut(c - 1).and_then(|s| s.take()) {
                Some(ctx) => Some(ctx),
                None => return json!({"out": [], "skipped": "no such context"}),
            }
        } else {
            None
        };
        let tstime = ev
            .get("t")
            .and_then(|x| x.as_str())
            .map(|n| time_from_bits(self.vals.time(n)));
        let kind = ev.get("k").and_then(|x| x.as_str()).unwrap_or("").to_string();
        let use_fwd = self.cfg.fwd;
        let provider = ev.get("prov").and_then(|x| x.as_str()).unwrap_or("").to_string();
        let fwdp: *mut TlvForwarder = &mut self.fwd[p];
        let port = match &mut self.ports[p] {
            Slot::Run(r) => r,
            _ => panic!("port not running"),
        };
        let r = catch_unwind(AssertUnwindSafe(|| {
            let it = match e {
                "t" => match kind.as_str() {
                    "ann" => {
                        if use_fwd && provider != "none" {
                            port.handle_announce_timer(unsafe { &mut *fwdp })
                        } else {
                            port.handle_announce_timer(&mut NoForwardedTLVs)
                        }
                    }
                    "sync" => port.handle_sync_timer(),
                    "dreq" => port.handle_delay_request_timer(),
                    "rcpt" => port.handle_announce_receipt_timer(),
                    "filt" => port.handle_filter_update_timer(),
                    k => panic!("unknown timer {}", k),
                },
                "ts" => port.handle_send_timestamp(ts_ctx.unwrap(), tstime.expect("ts event needs t")),
                _ => {
                    let b = bytes.as_ref().expect("unknown event");
                    if chan_event {
                        port.handle_event_receive(b, rx.unwrap_or_else(|| time_from_bits(0)))
                    } else {
                        port.handle_general_receive(b)
                    }
                }
            };
            collect(it)
        }));
        match r {
            Ok(raw) => {
                let out = self.absorb(p, raw);
                json!({ "out": out })
            }
            Err(e) => self.panicked(e),
        }
    }

    /// `handle_send_timestamp` with an explicit time (bits) for context `c` (1-based) of port `p` (1-based)
    pub fn step_ts_bits(&mut self, p: usize, c: usize, bits: u128) -> Value {
        self.clear_logs();
        let ctx = match self.ctxs[p - 1].get_mut(c - 1).and_then(|s| s.take()) {
            Some(c) => c,
            None => return json!({"out": [], "skipped": "no such context"}),
        };
        let port = match &mut self.ports[p - 1] {
            Slot::Run(r) => r,
            _ => panic!("port not running"),
        };
        let r = catch_unwind(AssertUnwindSafe(|| collect(port.handle_send_timestamp(ctx, time_from_bits(bits)))));
        match r {
            Ok(raw) => {
                let out = self.absorb(p - 1, raw);
                json!({ "out": out })
            }
            Err(e) => self.panicked(e),
        }
    }

    fn panicked(&mut self, e: Box<dyn std::any::Any + Send>) -> Value {
        self.panics += 1;
        let msg = if let Some(s) = e.downcast_ref::<&str>() {
            s.to_string()
        } else if let Some(s) = e.downcast_ref::<String>() {
            s.clone()
        } else {
            "panic".to_string()
        };
        json!({ "panic": msg })
    }

    fn bmca(&mut self, ord: Option<Vec<usize>>) -> Value {
        // the daemon: every port task does start_bmca, the main task runs bmca, ports do end_bmca
        let mut bports: Vec<BPort<S>> = vec![];
        for i in 0..self.ports.len() {
            match std::mem::replace(&mut self.ports[i], Slot::Taken) {
                Slot::Run(r) => bports.push(r.start_bmca()),
                Slot::Bmca(b) => bports.push(b),
                Slot::Taken => panic!("port missing"),
            }
        }
        let inst = self.inst();
        let r = catch_unwind(AssertUnwindSafe(|| {
            let mut refs: Vec<Option<&mut BPort<S>>> = bports.iter_mut().map(Some).collect();
            // the host may pass the ports in any order
            let mut ordered: Vec<&mut BPort<S>> = match &ord {
                Some(o) => o.iter().map(|i| refs[*i].take().expect("port order must be a permutation")).collect(),
                None => refs.iter_mut().map(|r| r.take().unwrap()).collect(),
            };
            inst.bmca(&mut ordered);
        }));
        let mut pend = vec![];
        for (i, b) in bports.into_iter().enumerate() {
            if self.cfg.fwd && self.cfg.empty_on_bmca && b.is_master() {
                self.fwd[i].empty();
            }
            let (rp, acts) = b.end_bmca();
            let raw = collect(acts);
            self.ports[i] = Slot::Run(rp);
            pend.push(self.absorb(i, raw));
        }
        match r {
            Ok(()) => json!({ "pend": pend }),
            Err(e) => {
                let mut v = self.panicked(e);
                v.as_object_mut().unwrap().insert("pend".into(), Value::Array(pend));
                v
            }
        }
    }

    // -------------------------------------------------------------- projection

    pub fn port_state_letter(&self, i: usize) -> &'static str {
        use statime::observability::port::PortState as PS;
        let ds = match &self.ports[i] {
            Slot::Run(p) => p.port_ds(),
            Slot::Bmca(p) => p.port_ds(),
            Slot::Taken => return "?",
        };
        match ds.port_state {
            PS::Faulty => "F",
            PS::Listening => "L",
            PS::Master => "M",
            PS::Passive => "P",
            PS::Slave => "S",
            _ => "?",
        }
    }

    pub fn snapshot(&self, i: usize) -> Value {
        let s = match &self.ports[i] {
            Slot::Run(p) => p.verif_snapshot(),
            Slot::Bmca(p) => p.verif_snapshot(),
            Slot::Taken => return Value::Null,
        };
        use statime::port::verif::VerifPeerDelay as PD;
        let pid = |x: &(ClockIdentity, u16)| json!([self.cfg.clock_abs(&x.0 .0), x.1]);
        let ot = |t: &Option<statime::time::Time>| match t {
            Some(t) => json!(time_bits(*t).to_string()),
            None => Value::Null,
        };
        let od = |t: &Option<statime::time::Duration>| match t {
            Some(t) => json!(dur_bits(*t).to_string()),
            None => Value::Null,
        };
        let ex = |x: &Option<(u16, Option<statime::time::Time>, Option<statime::time::Time>)>| match x {
            None => json!({"st": "E"}),
            Some((id, s, r)) => json!({"st": "M", "id": id, "send": ot(s), "recv": ot(r)}),
        };
        let ann_ns = 2f64.powi(self.cfg.ports[i].log_ann as i32) * 1e9;
        json!({
            "rm": s.remote_master.as_ref().map(pid),
            "sync": ex(&s.sync),
            "delay": ex(&s.delay),
            "lrs": od(&s.last_raw_sync_offset),
            "md": od(&s.mean_delay),
            "pd": match &s.peer_delay {
                PD::Empty => json!({"st": "E"}),
                PD::Measuring { id, responder, request_send_time, request_recv_time, response_send_time, response_recv_time } =>
                    json!({"st": "M", "id": id, "r": responder.as_ref().map(pid), "t1": ot(request_send_time), "t2": ot(request_recv_time), "t3": ot(response_send_time), "t4": ot(response_recv_time)}),
                PD::PostMeasurement { id, responder } => json!({"st": "P", "id": id, "r": pid(responder)}),
            },
            // multiport_disable: null or age in announce intervals (x1000)
            "mpd": s.multiport_disable.map(|d| ((d.nanos_lossy() / ann_ns) * 1000.0).round() as i64),
            "nseq": s.next_seq,
            // foreign masters: [[clk,port], [[seq, age in announce intervals, steps]..]]
            "fml": s.foreign_masters.iter().map(|(id, msgs)| json!({
                "id": pid(id),
                "msgs": msgs.iter().map(|(seq, age, steps)| json!({"seq": seq, "age": ((age.nanos_lossy() / ann_ns) * 1000.0).round() as i64, "steps": steps})).collect::<Vec<_>>()
            })).collect::<Vec<_>>(),
        })
    }

    /// π: the abstract observation of the whole world
    pub fn project(&self, last: &Value) -> Value {
        let inst = self.inst();
        let n = self.ports.len();
        let pst: Vec<Value> = (0..n).map(|i| json!(self.port_state_letter(i))).collect();
        let parent = inst.parent_ds();
        let cur = inst.current_ds(None);
        let tp = inst.time_properties_ds();
        let path = inst.path_trace_ds();
        let dds = inst.default_ds();
        let ppi = PortId {
            clock: parent.parent_port_identity.clock_identity.0,
            port: parent.parent_port_identity.port_number,
        };
        let mut m = Map::new();
        m.insert("pst".into(), Value::Array(pst));
        m.insert("ppi".into(), self.cfg.pid_abs(&ppi));
        m.insert(
            "gm".into(),
            json!({"id": self.cfg.clock_abs(&parent.grandmaster_identity.0), "p1": parent.grandmaster_priority_1,
                   "class": parent.grandmaster_clock_quality.clock_class, "acc": parent.grandmaster_clock_quality.clock_accuracy.to_primitive(),
                   "var": parent.grandmaster_clock_quality.offset_scaled_log_variance, "p2": parent.grandmaster_priority_2}),
        );
        m.insert("steps".into(), json!(cur.steps_removed));
        m.insert("tp".into(), tp_json(&tp));
        m.insert(
            "path".into(),
            Value::Array(path.list.iter().map(|c| self.cfg.clock_abs(&c.0)).collect()),
        );
        m.insert(
            "dds".into(),
            json!({"so": dds.slave_only, "class": dds.clock_quality.clock_class, "acc": dds.clock_quality.clock_accuracy.to_primitive(),
                   "var": dds.clock_quality.offset_scaled_log_variance, "p1": dds.priority_1, "p2": dds.priority_2, "nports": dds.number_ports}),
        );
        m.insert(
            "steer".into(),
            Value::Array(
                (0..n)
                    .map(|i| match &self.ports[i] {
                        Slot::Run(p) => json!(p.is_steering()),
                        Slot::Bmca(p) => json!(p.is_steering()),
                        _ => Value::Null,
                    })
                    .collect(),
            ),
        );
        m.insert(
            "md".into(),
            Value::Array(
                (0..n)
                    .map(|i| {
                        let ds = match &self.ports[i] {
                            Slot::Run(p) => p.port_ds(),
                            Slot::Bmca(p) => p.port_ds(),
                            _ => return Value::Null,
                        };
                        match ds.delay_mechanism {
                            statime::observability::port::DelayMechanism::P2P { mean_link_delay, .. } => {
                                json!(mean_link_delay.0.to_bits().to_string())
                            }
                            _ => Value::Null,
                        }
                    })
                    .collect(),
            ),
        );
        m.insert(
            "clk".into(),
            Value::Array(
                self.sh
                    .clock_log
                    .borrow()
                    .iter()
                    .map(|(p, c)| match c {
                        ClockCall::SetFreq(f) => json!([p + 1, "freq", f]),
                        ClockCall::Step(s) => json!([p + 1, "step", s.to_string()]),
                        ClockCall::SetProps(t) => json!([p + 1, "props", tp_json(t)]),
                    })
                    .collect(),
            ),
        );
        m.insert(
            "flt".into(),
            Value::Array(
                self.sh
                    .filter_log
                    .borrow()
                    .iter()
                    .map(|(p, c)| match c {
                        FilterEv::New => json!({"p": p + 1, "k": "new"}),
                        FilterEv::Update => json!({"p": p + 1, "k": "upd"}),
                        FilterEv::Demobilize => json!({"p": p + 1, "k": "demob"}),
                        FilterEv::Measurement(me) => {
                            let od = |t: &Option<statime::time::Duration>| match t {
                                Some(t) => json!(dur_bits(*t).to_string()),
                                None => Value::Null,
                            };
                            json!({"p": p + 1, "k": "meas", "et": time_bits(me.event_time).to_string(), "off": od(&me.offset), "dly": od(&me.delay),
                                   "pdly": od(&me.peer_delay), "rs": od(&me.raw_sync_offset), "rd": od(&me.raw_delay_offset)})
                        }
                    })
                    .collect(),
            ),
        );
        m.insert(
            "rng".into(),
            Value::Array(self.draws.iter().map(|d| json!(d.get())).collect()),
        );
        m.insert("locks".into(), json!(LOCK_LOG.with(|l| l.borrow().clone())));
        m.insert(
            "snap".into(),
            Value::Array((0..n).map(|i| self.snapshot(i)).collect()),
        );
        if let Some(o) = last.as_object() {
            for (k, v) in o {
                m.insert(k.clone(), v.clone());
            }
        }
        Value::Object(m)
    }

    /// Debug dump of all internal state (ports and instance) - used for the
    /// "unchanged" comparisons of C07.
    pub fn debug_dump(&self) -> String {
        let mut s = String::new();
        for p in &self.ports {
            match p {
                Slot::Run(p) => s.push_str(&format!("{:?}\n", p.verif_snapshot())),
                Slot::Bmca(p) => s.push_str(&format!("{:?}\n", p.verif_snapshot())),
                _ => {}
            }
        }
        s
    }
}


/// Duration (bits, 2^-32 ns) -> wire TimeInterval bits (2^-16 ns) as exported by a real port's data set
/// (`PortDS.delay_asymmetry` is `TimeInterval::from(Duration)`)
pub fn asymmetry_interval_bits(d: i128) -> i64 {
    let icfg = InstanceConfig {
        clock_identity: ClockIdentity([1; 8]), priority_1: 128, priority_2: 128, domain_number: 0, sdo_id: SdoId::try_from(0).unwrap(),
        slave_only: false, path_trace: false, clock_quality: ClockQuality::default(),
    };
    let inst = PtpInstance::<RecFilter, RecMutex>::new(icfg, TimePropertiesDS::default());
    let sh = Rc::new(Shared::default());
    let pcfg = PortConfig {
        acceptable_master_list: None::<Vec<ClockIdentity>>, delay_mechanism: DelayMechanism::E2E { interval: Interval::from_log_2(0) },
        announce_interval: Interval::from_log_2(0), announce_receipt_timeout: 3, sync_interval: Interval::from_log_2(0), master_only: false,
        delay_asymmetry: dur_from_bits(d), minor_ptp_version: PtpMinorVersion::One,
    };
    let p = inst.add_port(pcfg, RecFilterCfg { port: 0, sh: sh.clone() }, RecClock { port: 0, sh }, ScriptRng::new(1));
    p.port_ds().delay_asymmetry.0.to_bits()
}

// ------------------------------------------------------------------ comparison

/// Subset comparison: every key of `exp` must be present in `act` and match.
/// Symbolic forms in `exp` are evaluated and compared with decimal strings in
/// `act`. Returns the path of the first mismatch.
pub fn subset_match(vals: &Vals, exp: &Value, act: &Value, path: &str) -> Option<String> {
    if is_form(exp) {
        let key = path.rsplit('.').next().unwrap_or("");
        let want = match eval_form(vals, exp) {
            Ok(v) => v,
            Err(e) => return Some(format!("{} (form error {})", path, e)),
        };
        // rounding rule by key name
        let want = match key {
            "tsum" => want & !0xffffi128, // exact to 2^-16 ns
            "ts" | "ots" => want & !0xffff_ffffi128, // whole nanoseconds
            _ => want,
        };
        let tol = halvings(exp);
        return match act.as_str().and_then(|s| s.parse::<i128>().ok()) {
            Some(a) if (a - want).abs() <= tol => None,
            _ => Some(format!("{} (want {} got {})", path, want, act)),
        };
    }
    match (exp, act) {
        (Value::Object(e), Value::Null) if e.get("none").is_some() => None,
        (Value::Object(e), Value::Object(a)) => {
            for (k, v) in e {
                match a.get(k) {
                    None => return Some(format!("{}.{} (missing)", path, k)),
                    Some(av) => {
                        if let Some(p) = subset_match(vals, v, av, &format!("{}.{}", path, k)) {
                            return Some(p);
                        }
                    }
                }
            }
            None
        }
        (Value::Array(e), Value::Array(a)) => {
            if e.len() != a.len() {
                return Some(format!("{} (length {} vs {})", path, e.len(), a.len()));
            }
            for (i, (x, y)) in e.iter().zip(a.iter()).enumerate() {
                if let Some(p) = subset_match(vals, x, y, &format!("{}[{}]", path, i)) {
                    return Some(p);
                }
            }
            None
        }
        (Value::Number(x), Value::Number(y)) => {
            if x.as_f64() == y.as_f64() {
                None
            } else {
                Some(format!("{} ({} vs {})", path, x, y))
            }
        }
        // TLC prints the empty sequence and the empty record alike
        (Value::Array(e), Value::Object(a)) if e.is_empty() && a.is_empty() => None,
        (Value::Object(e), Value::Array(a)) if e.is_empty() && a.is_empty() => None,
        // a model string "null" / record [none |-> TRUE] / the NoUtc sentinel stand for an absent optional
        (Value::String(s), Value::Null) if s == "null" => None,
        (Value::Number(n), Value::Null) if n.as_i64() == Some(99999) => None,
        _ => {
            if exp == act {
                None
            } else {
                Some(format!("{} ({} vs {})", path, exp, act))
            }
        }
    }
}
